#!/usr/bin/env python3
"""Seeded-change bookkeeping.

  tools_seeded.py ingest <worktree> <seed-id> <property>   verify an independently written breaking change and store it
                                                          under /verif/seeded/<seed-id>/ (patch.diff, demo, meta.json)
  tools_seeded.py run <seed-id> [--tier quick|thorough] [--props C01 C02 ...] [--inplace]
                                                          run checks against the change; default: scratch copy via VERIF_REPO;
                                                          --inplace uses `git -C /repo apply` and undoes it straight afterwards
  tools_seeded.py table                                   print the which-check-catches-which table

Verification done by `ingest` (all in a scratch copy of /repo HEAD outside /repo and /verif, removed afterwards):
  patch applies; go build ok; the whole existing suite passes with the patch; demo FAILS with the patch; demo PASSES without it.
"""
import argparse, glob, json, os, shutil, subprocess, sys, tempfile, time

SEEDED = '/verif/seeded'
GOENV = dict(os.environ, GOPROXY='off', GOSUMDB='off', GOTOOLCHAIN='local')


def sh(cmd, cwd=None, env=None, timeout=1800):
    r = subprocess.run(cmd, cwd=cwd, env=env or GOENV, stdout=subprocess.PIPE, stderr=subprocess.STDOUT, text=True, timeout=timeout)
    return r.returncode, r.stdout


def scratch_repo():
    d = tempfile.mkdtemp(prefix='seed-', dir='/dev/shm')
    subprocess.check_call(['rsync', '-a', '--exclude', '.git', '/repo/', d + '/'])
    return d


def demo_files(wt):
    rc, out = sh(['git', 'status', '--porcelain', '--untracked-files=all'], cwd=wt)
    files = []
    created = set()
    pp = os.path.join(wt, 'patch.diff')
    if os.path.exists(pp):
        for l in open(pp):
            if l.startswith('+++ b/'):
                created.add(l[6:].strip())
    for l in out.splitlines():
        if l.startswith('??'):
            f = l[3:].strip()
            if f in ('patch.diff', 'meta.txt', 'p', 'PROPERTY.txt', 'TASK.md') or f.endswith('.orig') or f.endswith('.rej') or os.path.basename(f).startswith('gofasta'):
                continue
            if f in created:
                continue  # a new source file that is part of the change itself
            files.append(f)
    return files


def run_demo(d, demos):
    """returns (ok, output): runs go test on the packages of the demo test files, or the demo script"""
    pkgs = sorted({'./' + os.path.dirname(f) for f in demos if f.endswith('_test.go')})
    scripts = [f for f in demos if f.endswith('.sh')]
    outs, ok = [], True
    for p in pkgs:
        names = []
        for f in demos:
            if f.endswith('_test.go') and './' + os.path.dirname(f) == p:
                for l in open(os.path.join(d, f)):
                    if l.startswith('func Test') and '(t *testing.T)' in l.replace(' ', ' '):
                        names.append(l.split('(')[0].split()[1])
        runarg = '^(' + '|'.join(names) + ')$' if names else '.'
        rc, out = sh(['go', 'test', '-vet=off', '-count=1', '-run', runarg, p], cwd=d)
        rc2, out2 = (0, '')
        if rc == 0 and 'race' in open(os.path.join(d, demos[0])).read().lower():
            rc2, out2 = sh(['go', 'test', '-race', '-vet=off', '-count=1', '-run', runarg, p], cwd=d, env=dict(GOENV, CGO_ENABLED='1'))
        ok = ok and rc == 0 and rc2 == 0
        outs.append(out[-1500:] + out2[-1500:])
    for s in scripts:
        rc, out = sh(['bash', s], cwd=d)
        ok = ok and rc == 0
        outs.append(out[-1500:])
    return ok, '\n'.join(outs)


def ingest(wt, sid, prop):
    dst = os.path.join(SEEDED, sid)
    os.makedirs(dst, exist_ok=True)
    patch = os.path.join(wt, 'patch.diff')
    if not os.path.exists(patch):
        print('no patch.diff in', wt); return 2
    demos = demo_files(wt)
    if not demos:
        print('no demo files in', wt); return 2
    ran = []
    d = scratch_repo()
    try:
        rc, out = sh(['patch', '-p1', '-s', '--dry-run', '-i', patch], cwd=d)
        if rc != 0:
            print('patch does not apply to /repo HEAD:\n' + out); return 2
        for f in demos:
            os.makedirs(os.path.dirname(os.path.join(d, f)), exist_ok=True)
            shutil.copy(os.path.join(wt, f), os.path.join(d, f))
        # without the patch: demo passes
        ok0, out0 = run_demo(d, demos)
        ran.append(dict(step='demo without the change', passed=ok0))
        sh(['patch', '-p1', '-s', '-i', patch], cwd=d)
        rcb, outb = sh(['go', 'build', './...'], cwd=d)
        ran.append(dict(step='go build ./... with the change', passed=rcb == 0))
        ok1, out1 = run_demo(d, demos)
        ran.append(dict(step='demo with the change', passed=ok1))
        # the existing suite (demo files moved away) with the change
        for f in demos:
            os.remove(os.path.join(d, f))
        rcs, outs = sh(['go', 'test', '-vet=off', '-count=1', './...'], cwd=d)
        ran.append(dict(step='go test -vet=off -count=1 ./... with the change (existing suite only)', passed=rcs == 0))
        verdict = ok0 and rcb == 0 and (not ok1) and rcs == 0
        if not verdict:
            print('NOT CONFIRMED: demo-without=%s build=%s demo-with(fails expected)=%s suite=%s' % (ok0, rcb == 0, not ok1, rcs == 0))
            print(out0[-800:], out1[-800:], outs[-800:])
    finally:
        shutil.rmtree(d, ignore_errors=True)
    shutil.copy(patch, os.path.join(dst, 'patch.diff'))
    for f in demos:
        shutil.copy(os.path.join(wt, f), os.path.join(dst, 'demo__' + f.replace('/', '__')))
    notes = open(os.path.join(wt, 'meta.txt')).read() if os.path.exists(os.path.join(wt, 'meta.txt')) else ''
    head = subprocess.run(['git', '-C', '/repo', 'rev-parse', '--short', 'HEAD'], stdout=subprocess.PIPE, text=True).stdout.strip()
    meta = dict(seed_id=sid, breaks_property=prop, repo_commit=head, demo_files=demos, confirmed=verdict, confirmation=ran,
                author='independent sub-agent given only the property text and its own worktree',
                needs_to_manifest=notes[:4000], checks_run=[])
    json.dump(meta, open(os.path.join(dst, 'meta.json'), 'w'), indent=1)
    print('%s: confirmed=%s (demo files %s)' % (sid, verdict, demos))
    return 0 if verdict else 1


def run(sid, tier, props, inplace):
    dst = os.path.join(SEEDED, sid)
    meta = json.load(open(os.path.join(dst, 'meta.json')))
    props = props or [meta['breaks_property']]
    patch = os.path.join(dst, 'patch.diff')
    env = dict(os.environ)
    d = None
    try:
        if inplace:
            subprocess.check_call(['git', '-C', '/repo', 'apply', patch])
        else:
            d = scratch_repo()
            subprocess.check_call(['patch', '-p1', '-s', '-d', d, '-i', patch])
            env['VERIF_REPO'] = d
        for p in props:
            t0 = time.time()
            r = subprocess.run(['/verif/check', p, '--tier', tier], env=env, stdout=subprocess.PIPE, stderr=subprocess.STDOUT, text=True)
            caught = r.returncode == 1 and 'VIOLATION property=%s' % p in r.stdout
            res = dict(check=p, tier=tier, seed=int(env.get('VERIF_SEED', '0')), exit=r.returncode, caught=caught, wall_s=round(time.time() - t0, 1),
                       how='git apply in /repo, undone afterwards' if inplace else 'scratch copy via VERIF_REPO')
            if caught:
                msg = [l for l in r.stdout.splitlines() if l.strip() and not l.startswith('VIOLATION')]
                res['first_lines'] = '\n'.join(msg[1:6])[:700]
            if r.returncode in (0, 1):  # exit 2 = the run itself broke (build error, timeout): says nothing about the change
                meta['checks_run'] = [c for c in meta['checks_run'] if not (c['check'] == p and c['tier'] == tier)] + [res]
            print('%s vs %s (%s): exit %d %s' % (sid, p, tier, r.returncode, 'CAUGHT' if caught else ('MISSED' if r.returncode == 0 else 'INFRA')))
            if r.returncode == 2:
                print(r.stdout[-1500:])
    finally:
        if inplace:
            subprocess.check_call(['git', '-C', '/repo', 'checkout', '--', '.'])
        if d:
            shutil.rmtree(d, ignore_errors=True)
    json.dump(meta, open(os.path.join(dst, 'meta.json'), 'w'), indent=1)


def table():
    rows = []
    for mp in sorted(glob.glob(os.path.join(SEEDED, '*', 'meta.json'))):
        m = json.load(open(mp))
        caught = sorted({'%s/%s' % (c['check'], c['tier']) for c in m['checks_run'] if c['caught']})
        missed = sorted({'%s/%s' % (c['check'], c['tier']) for c in m['checks_run'] if not c['caught']})
        rows.append('| %s | %s | %s | %s | %s |' % (m['seed_id'], m['breaks_property'], 'yes' if m['confirmed'] else 'NO', ', '.join(caught) or '-', ', '.join(missed) or '-'))
    print('| seeded change | breaks | confirmed | caught by | missed by |\n|---|---|---|---|---|')
    print('\n'.join(rows))


if __name__ == '__main__':
    ap = argparse.ArgumentParser()
    sub = ap.add_subparsers(dest='cmd')
    a = sub.add_parser('ingest'); a.add_argument('wt'); a.add_argument('sid'); a.add_argument('prop')
    b = sub.add_parser('run'); b.add_argument('sid'); b.add_argument('--tier', default='quick'); b.add_argument('--props', nargs='*'); b.add_argument('--inplace', action='store_true')
    sub.add_parser('table')
    args = ap.parse_args()
    if args.cmd == 'ingest':
        sys.exit(ingest(args.wt, args.sid, args.prop))
    elif args.cmd == 'run':
        run(args.sid, args.tier, args.props, args.inplace)
    elif args.cmd == 'table':
        table()
    else:
        ap.print_help()
