"""Table of claimed properties: how each check is run, and what goes into MANIFEST.json.

`./check --manifest` regenerates MANIFEST.json from this table, so the two cannot drift apart.
A property absent from PROPS is listed under not_applicable with the reason in NOT_CLAIMED.
"""
import json, os

COMMON_ASSUMPTIONS = [
    "the Go toolchain, pgregory.net/rapid v1.3.0 and the harness' own reference models are trusted",
    "verdict covers only the generated inputs; no absence proof outside parts marked exhaustive",
]


# rapid's integer generators favour small values: a class selected by `IntRange(0, n-1) == 0` runs in roughly one case in ten
# whatever n is. The "1 in n" figures in the rule texts are those draw ranges; the measured share of every class is the
# `labels` count in the evidence file. Classes that must be rare because they are expensive use harness.oneIn (hashed draw).
FREQ_NOTE = ("; class frequencies quoted as '1 in n' are draw ranges, not measured rates (rapid favours small draws, so such classes "
             "run in roughly 5-10 % of the cases; expensive genome-sized classes use a hashed draw and are rare) - coverage.labels has the measured counts")


def tiers(q_shards, q_checks, t_shards, t_checks, q_timeout=240, t_timeout=1500, floor_q=20, floor_t=100, **kw):
    q = dict(shards=q_shards, checks=q_checks, timeout=q_timeout, floor=floor_q)
    t = dict(shards=t_shards, checks=t_checks, timeout=t_timeout, floor=floor_t)
    q.update(kw.get("q", {}))
    t.update(kw.get("t", {}))
    return q, t


PROPS = {}


def prop(pid, test, level, text, note, technique, rule, q, t, need_bin=False, assumptions=None, required_labels=None, design_ref=None, exhaustive_note=None):
    rule = rule + FREQ_NOTE
    if t.get("fuzz") and "coverage-guided" not in technique:
        technique += "; thorough tier adds native coverage-guided fuzzing (go test -fuzz over rapid.MakeFuzz) of the same generator and oracle"
    PROPS[pid] = dict(test=test, level=level, text=text, note=note, technique=technique, rule=rule, quick=q, thorough=t,
                      need_bin=need_bin, assumptions=(assumptions or []) + COMMON_ASSUMPTIONS,
                      required_labels=required_labels or [], design_ref=design_ref or ("DESIGN.md §4 " + pid),
                      exhaustive_note=exhaustive_note)


# ------------------------------------------------------------------------------------------------
q, t = tiers(2, 3000, 16, 30000, floor_q=3000, floor_t=3000)
prop("C17", "TestC17", "exploration",
     "Exhaustive enumeration of all 3375 IUPAC codons (lenient and strict translation and the codon dictionary itself) against an "
     "every-expansion oracle built from the NCBI table-1 string, of all 32 accepted characters (and all 95 other ASCII bytes) for the "
     "complement / encode / decode / score tables in text and bit-encoded form, plus rapid-generated strings for the involution and "
     "text-vs-encoded agreement laws. The finite part is complete, so for it the verdict is a decision, not a sample.",
     "Oracle = NCBI transl_table=1 string and IUPAC set table typed in independently of gofasta's tables.",
     "bounded-exhaustive enumeration + property-based testing (rapid) against an independent reference model",
     "all 4913 codons over the 17 alignment symbols also as the query codon of a gene run through `variants` (6 reference codons (3 of them ambiguous but translatable) x 2 strands x GenBank/GFF x with/without a preceding changed codon, rows against the C04 oracle); codon sequences: every codon preceded/followed by 8 followers (enumerated) and rapid sequences of 2..8 codons mixing resolvable-ambiguous, plain and untranslatable ones; codons: all 15^3 enumerated, non-trivial = contains an ambiguity code; characters: all 32 accepted enumerated; strings: rapid, "
     "length 0..40 over the 32 accepted characters, non-trivial = length >= 2; distinct = hash of the case",
     q, t, required_labels=["codon:ambiguous-resolvable", "char", "string:len>=2"],
     exhaustive_note="all 15^3 codons x {lenient, strict, dictionary}; all 15^3 codons as query codon through variants x 3 reference codons x 2 strands x 2 annotation formats; all 32 accepted + 95 rejected ASCII characters")

q, t = tiers(8, 8000, 16, 60000, floor_q=2000, floor_t=20000)
t["fuzz"] = dict(target="FuzzC03", seconds=60)  # thorough: coverage-guided search over the same generator and oracle (rapid.MakeFuzz)
prop("C03", "TestC03", "exploration",
     "Every symbol pair x gap mode x letter case x column is enumerated (6936 one-difference alignments, complete for the per-column "
     "decision), then rapid generates whole alignments (width 1..40, thorough 1..300; 1..8 records; 17-symbol alphabet in either case; "
     "wrapped/CRLF/no-final-newline layouts; reference also ambiguous) and the full output text is compared with a set-disjointness model.",
     "Oracle = IUPAC base-set table written from the statement; output compared byte for byte (header, row order, item order, upper case).",
     "bounded-exhaustive enumeration + property-based testing (rapid) against an independent reference model",
     "rapid: reference and 1..8 records over ACGTRYSWKMBDHVN-? (70% A/C/G/T), two thirds of records derived from the reference with 0..4 "
     "size classes: 4% of cases have 60..140 records, 2% are 4095..9000 columns wide; about 100 cases per quick run are bulk alignments of 1.1..2.2 MiB (2000 / 5000 / 29 903 / 70 000 / 1 048 600 columns); 1 in 30 also runs the binary; edits; non-trivial = some reported SNP involves a non-A/C/G/T symbol, or --hard-gaps with a '-' column; distinct = hash of the case",
     q, t, need_bin=True, required_labels=["snp-with-ambiguity-code", "hardgap-column", "wrapped", "crlf"],
     exhaustive_note="17x17 symbol pairs x {soft,hard gaps} x 4 case combinations x 3 columns")

q, t = tiers(8, 6000, 16, 40000, floor_q=2000, floor_t=20000)
t["fuzz"] = dict(target="FuzzC06", seconds=60)  # thorough: coverage-guided search over the same generator and oracle (rapid.MakeFuzz)
prop("C06", "TestC06", "exploration",
     "rapid builds target sets that force ties (exact copies, same distance with different completeness through ambiguity padding, "
     "few mutable columns), all-N and heavily ambiguous targets at any file position, and runs plain / -n K / -d D / both / --table with "
     "K around the number of targets and D at, just below and just above an occurring distance. For raw and snp the returned list must equal "
     "the first K within D of the documented total order computed by the model (exact: one correctly rounded integer division); for tn93 a "
     "validity predicate (sorted within 1e-9, no omitted target closer than the last returned, exact tie-breaks for bit-identical tuples).",
     "Oracle distances are the C07 definitions; completeness is 12/|set| per symbol as documented. Undefined-distance targets may follow defined ones but never take their slots.",
     "property-based testing (rapid) against a reference total order / validity predicate",
     "one case in 4 names the queries after target records; one case in 8 uses block-sized widths (64, 65, 127, 128, ... 320) with unit-periodic targets wrapped at 60..80 columns and long masked stretches in the query; 1 in 20 also runs the binary incl. -d as a command-line string; 1..3 queries, 1..12 (one third of cases 13..48, mostly exact copies) targets of width 6..30 derived from one balanced base; non-trivial = tie at the K boundary, completeness "
     "tie-break inside the list, or an undefined-distance target present; distinct = hash of the case",
     q, t, need_bin=True, required_labels=["tie-at-boundary", "boundary-tie-broken-by-completeness", "boundary-tie-broken-by-file-order", "undefined-target-present", "mode:plain", "mode:n", "mode:d", "mode:nd", "table", "targets>12"])

q, t = tiers(8, 6000, 16, 40000, floor_q=1000, floor_t=10000)
t["fuzz"] = dict(target="FuzzC07", seconds=60)  # thorough: coverage-guided search over the same generator and oracle (rapid.MakeFuzz)
prop("C07", "TestC07", "exploration",
     "All 17x17 symbol pairs are appended as one extra column to two fixed contexts for each measure (1734 cases: complete for the per-column "
     "contribution to snp, raw and to P1/P2/Q/L of tn93); rapid then generates pairs of width 4..60 (thorough 200) over the full alphabet, with "
     "transitions and transversions placed by construction on jointly resolved columns of a base-balanced target so that eq. 7 is defined. "
     "snp and raw are compared as identical printed strings, tn93 within 5e-9 of Tamura & Nei eq. 7 typed in from the paper; symmetry "
     "(files swapped), raw in [0,1], zero for identical unambiguous sequences, and the SNP/distance columns of plain closest are checked on the same cases.",
     "tn93 asserted only where the oracle's log arguments are > 0.02; frequencies from the target's A/C/G/T counts as the statement says.",
     "bounded-exhaustive enumeration + property-based testing (rapid) against independent distance definitions",
     "1 case in 20 also runs the binary with --measure in lower, upper or capitalised spelling; one case in 8 uses block-sized widths (64 ... 320, 4096, 4097) with masked stretches of 20..90 columns in the query and wrapped targets; non-trivial = a pair with an ambiguous column, a transition and a transversion; distinct = hash of the case",
     q, t, need_bin=True, required_labels=["measure:raw", "measure:snp", "measure:tn93", "tn93:P1,P2,Q>0", "identical-unambiguous"],
     exhaustive_note="17x17 symbol pairs x 2 contexts x 3 measures")

q, t = tiers(8, 6000, 16, 50000, floor_q=2000, floor_t=20000)
t["fuzz"] = dict(target="FuzzC10", seconds=60)  # thorough: coverage-guided search over the same generator and oracle (rapid.MakeFuzz)
prop("C10", "TestC10", "exploration",
     "rapid generates references (A/C/G/T or with IUPAC codes) and alignments built from alternating resolved/ambiguous segments (runs at either "
     "end, length-1 runs, runs one base apart, all-ambiguous rows, random rows); each output row is parsed and the sequence reconstructed "
     "column by column exactly as the statement reads (range => non-A/C/G/T, SNP => that allele and not in the reference set, else equals "
     "reference), ranges must be maximal and ascending, counts must match, and the whole text must equal the model's rendering.",
     "Oracle written from the statement; both directions (nothing missing, nothing extra) because every column is classified.",
     "property-based testing (rapid): reconstruction round-trip + reference model",
     "size classes: 4% with 70..140 records, 2% 4095..8193 columns wide, about 1 % genome-sized (10 001 / 12 000 / 29 903 columns; near-reference, mostly-missing and fully ambiguous records; always also through the binary), 1 in 8 medium width 64..400 with sparse reference ambiguity and reference-identical records; 1 in 30 also runs the binary; width 1..40 (thorough 200), 1..6 records; non-trivial = a row with >= 2 ambiguity ranges and >= 1 SNP; distinct = hash of the case",
     q, t, need_bin=True, required_labels=["range-at-start", "range-at-end", "all-ambiguous", "ranges-one-base-apart", "range-length-1"])

q, t = tiers(8, 8000, 16, 60000, floor_q=4000, floor_t=40000)
t["fuzz"] = dict(target="FuzzC16", seconds=120)
t["timeout"] = 1800
prop("C16", "TestC16", "exploration",
     "(a) a record model rendered under random layouts (line width, letter case, CRLF, final newline) must be returned identically by the "
     "streaming, list, scoring and plain-text readers (ID, description, upper-cased sequence, index; score and A/C/G/T counts from the "
     "model); (b) blank-line layouts and structured corruptions (byte/line deletion, duplication, insertion of hostile bytes, truncation, "
     "lone or ID-less headers, CR without LF, shortened records, missing first header, empty input, a 1 MiB+1 line) are classified by a "
     "specification-level parser into must-accept / must-reject / free, and every reader is called synchronously inside recover() with "
     "buffered channels so that a panic or a hang is a captured violation; readers must agree with each other; variants.findReference is "
     "reached through variants.Variants on the same bytes; (c) thorough adds 120 s of native coverage-guided fuzzing of arbitrary bytes "
     "through the same oracle, seeded with the hostile constants.",
     "Plain-text reader is not required to reject non-IUPAC symbols; blank lines, ID-less headers, all-empty records and over-long lines may be accepted or rejected but must not crash.",
     "property-based testing (rapid) with structured mutation + native coverage-guided fuzzing (go test -fuzz), specification-parser oracle and differential agreement between readers",
     "plus an enumerated line-length boundary sweep (single-line records of length m*1024-2..+1 up to 66 KiB, thorough m*256; LF and CRLF) and unit-periodic wide records wrapped at the unit length; non-trivial: layout cases combining >= 2 of {wrapped, lower case, CRLF, no final newline, blank line}; corrupted cases with >= 2 records "
     "or a must-reject verdict; distinct = hash of the byte stream + kind",
     q, t, required_labels=["kind:layout", "kind:blank", "kind:corrupt", "spec:accept", "spec:reject", "spec:free"])

q, t = tiers(8, 2500, 16, 30000, floor_q=5000, floor_t=50000, q_timeout=600, t_timeout=3000)
t["fuzz"] = dict(target="FuzzC01", seconds=60)  # thorough: coverage-guided search over the same generator and oracle (rapid.MakeFuzz)
prop("C01", "TestC01", "exploration",
     "rapid generates a reference (6..60 nt, thorough 400; occasionally with IUPAC codes) and 1..5 queries of 1..3 (thorough 5) records each. "
     "Every record is built from a per-query truth row: CIGAR over M,=,X,I,D,N,P with optional H/S/HS clips, lengths 1..6 (rare long ones), placed at any "
     "POS that fits (biased to POS=1 and to ending at the last base), SEQ consistent by construction, upper or lower case; supplementary records "
     "overlap or not, agree or (one class) carry conflicting bases; unmapped (0x4) and secondary (0x100, SEQ '*' or wrong bases) records of any "
     "query name are interleaved. Options: --pad, --start/--end (each alone, both, none), --wrap 1..L+3 or off, threads 1,2,3,8. The whole output "
     "text is compared with a column-by-column projection model (base > deletion > nothing, two letters => N, flank rule, window, wrap).",
     "Model written from the statement; records without an aligned base, spans beyond LN, non-contiguous query names and SEQ '*' on primary records are not generated (undefined by the statement).",
     "property-based testing (rapid) against an independent alignment-projection model",
     "size classes: 1 case in 60 has a 600..9000 nt reference with operators of length 255..8193; 1 in 700 has 300..8300 records; 1 query in 25 is fragmented into 9..70 records; 1 in 2000 has a 66 000..131 100 nt reference with wraps around 65 536; about 20 cases per quick run have a SAM line beyond 1 MiB (1.05..1.1 Mb contig); 1 in 20 also runs the binary (cliAgree); non-trivial = some CIGAR has I/D/N/S/H/P, or a query has >= 2 records, or a noise record is interleaved; distinct = hash of the case",
     q, t, need_bin=True, required_labels=["op:I", "op:D", "op:N", "op:S", "op:H", "op:P", "op:=", "op:X", "leading-D", "trailing-D", "adjacent-I/D", "overlapping-records",
                            "disjoint-records", "conflicting-bases", "noise:unmapped", "noise:secondary", "pad", "window", "wrap", "threads>1", "pos=1", "ends-at-L"])

q, t = tiers(8, 3500, 16, 30000, floor_q=3000, floor_t=30000)
t["fuzz"] = dict(target="FuzzC02", seconds=60)  # thorough: coverage-guided search over the same generator and oracle (rapid.MakeFuzz)
prop("C02", "TestC02", "exploration",
     "Same alignment generator as C01 without conflicting bases and without two records sharing one insertion slot; insertions anywhere (before the "
     "first base, after the last, adjacent to D, several per record, in several records of one query, inside another record's match-only coverage). "
     "Options: --skip-insertions, --omit-reference, --start/--end, --wrap, threads, directory output (files read back; one file per query, '/' in "
     "names replaced) and -o stdout. Each file must equal the model pair exactly (reference row = reference with '-' exactly at the query's "
     "insertion columns; query row = aligned and inserted bases in order, '-' for deletions, N uncovered); additionally gofasta's own pair row "
     "with the reference-gap columns deleted must equal gofasta's own `toMultiAlign --pad` row (cross-command relation on real outputs).",
     "Overlapping records that contain the same insertion are not generated (no single answer); record order on stdout with threads>1 is left to C12 (compared as a multiset of per-query blocks).",
     "property-based testing (rapid) against an independent alignment-projection model + metamorphic relation toPairAlign vs toMultiAlign --pad",
     "size classes as C01 (long operators 1 in 80; fragmented queries of 9..70 records); the --reference file on one line or wrapped; about 30 cases per quick run have a 32 767..66 000 nt reference (single line or wrapped at 60 / 32 768); 1 case in 20 also runs the binary with -o stdout; non-trivial = a query with >= 1 insertion; distinct = hash of the case; label multi-record+insertion counts the deep class",
     q, t, need_bin=True, required_labels=["query-with-insertion", "multi-record+insertion", "several-insertions", "insertion-before-first-base", "insertion-after-last-base",
                            "skip-insertions", "omit-reference", "window", "wrap", "stdout", "threads>1"])

VAR_GEN = ("annotation model: reference 20..90 nt (thorough 300), 0..4 (thorough 6) coding features, forward/reverse, 1..3 segments incl. abutting and "
           "slippage joins, codon_start 1..3, overlapping / nested / shared-start, named or (GFF) unnamed, CDS or mature_protein_region_of_CDS; the "
           "reference is repaired so every feature ends in a stop and has no internal stop; rendered as GenBank (a..b, join, complement, "
           "complement(join), join(complement,...), /gene, /codon_start, multi-line /translation, ORIGIN) or GFF3 (rows sharing an ID, strand, phase "
           "with or without spec continuation phases, ##sequence-region, ##FASTA, extra gene rows). Queries: substitutions biased to coding positions "
           "and feature borders (bases, IUPAC codes containing / excluding the reference base, N, ?), rewritten codons, deletions, insertions, N tracts; "
           "as FASTA MSA (reference anywhere in the file or taken from the annotation, shared insertion slots with left/right/spread placement, extra "
           "all-gap columns) or as SAM records (C01 generator on the annotated reference, with or without --reference)")

q, t = tiers(8, 3000, 16, 25000, floor_q=1000, floor_t=10000, q_timeout=400)
t["fuzz"] = dict(target="FuzzC04", seconds=60)  # thorough: coverage-guided search over the same generator and oracle (rapid.MakeFuzz)
prop("C04", "TestC04", "exploration",
     "Each generated case is run through variants (MSA form) or sam variants (SAM form) with --append-snps; every row is parsed and checked "
     "against a coordinate-level oracle built from base sets and the NCBI table: (a) the positions mentioned as nuc: records or inside (nuc:...) "
     "lists are exactly the positions with disjoint base sets, each with the right <ref><pos><qry> text (nothing dropped, nothing invented); "
     "(b) every aa: record names a named feature whose k-th codon (strand, joins, codon_start applied by the oracle) translates to R in the "
     "reference and unambiguously to Q != R in the query, with exactly that codon's SNPs listed; (c) every such codon has its record; (d) the run "
     "without --append-snps equals the rows with the lists removed; rows are one per query in input order. Indels are checked as in C05.",
     "Reference ambiguity codes are kept outside features and GenBank CDS always carry /gene (documented refusals otherwise); insertions inside a codon are ignored for translation as documented; record order inside a row is not asserted here.",
     "property-based testing (rapid) against an independent reference model (base sets + NCBI table 1 + feature geometry)",
     VAR_GEN + "an IUPAC-codon class (YTR, MGR, CTN, ... on the feature's strand), coordinate-sorted GFF rows, 4% of MSA cases with 60..90 rows; 1 in 20 also runs the binary; ; non-trivial = a query with >= 1 expected aa record and >= 1 nucleotide difference; distinct = hash of the case",
     q, t, need_bin=True, required_labels=["format:gb", "format:gff", "form:msa", "form:sam", "feat:reverse", "feat:joined", "feat:reverse-joined", "feat:overlapping",
                            "feat:unnamed", "feat:codon_start>1", "aa-in-reverse-feature", "aa-codon-spans-join", "aa-from-iupac-codon",
                            "snp-in-unnamed-feature", "codon-broken-by-gap", "gff:spec-phases", "row:aa", "row:nuc"])

q, t = tiers(8, 1800, 16, 15000, floor_q=1000, floor_t=10000, q_timeout=400)
prop("C05", "TestC05", "exploration",
     "Indel-heavy variant of the C04 generator (up to 5 insertions and 5 deletions per query, at the alignment ends, adjacent to each other and to "
     "feature borders, MSA with other sequences' insertions and extra all-gap columns, and SAM form). Oracle: an independent scan in reference "
     "coordinates (per slot the number of query symbols in reference-gap columns => ins:p:n; maximal runs of deleted reference positions => "
     "del:p:n unless they include position 1 or L), compared as a multiset with the reported ins/del records. Metamorphic arm: every query is "
     "re-run alone with all columns that are gaps in both rows removed and must give the same mutation list.",
     "Oracle from the statement; the same rows are also checked for C04's nuc/aa rules.",
     "property-based testing (rapid): reference-coordinate model + metamorphic relation (remove both-gap columns)",
     VAR_GEN + "as C04; ; non-trivial = >= 2 reference-gap runs with an indel, or an indel right of an earlier gap column; distinct = hash of the case",
     q, t, need_bin=True, required_labels=["indel-after-earlier-gap-column", "insertion-abutting-end", "insertion-abutting-start", "deletion-abutting-start",
                            "deletion-abutting-end", "deletion-spanning-insertion-slot", "both-gap-columns", "form:sam", "form:msa"])

q, t = tiers(8, 1600, 16, 14000, floor_q=500, floor_t=5000, q_timeout=400)
prop("C11", "TestC11", "exploration",
     "Differential between commands on gofasta's own intermediate files: for every generated SAM + annotation, the row `sam variants` prints for a "
     "query must be identical (same records, same order) to the row `variants` prints for the reference/query pair written by `sam toPairAlign` "
     "(directory mode, file read back, --reference = SAM reference name), and, for queries without insertions, for the `toMultiAlign --pad` row placed "
     "under the reference. Options varied: --append-snps, --start/--end (each alone or both), reference from file or from the annotation, GenBank or GFF3.",
     "The toMultiAlign leg uses --pad: without it uncovered flanks become '-', which variants legitimately reads as deleted bases, so it would not be the same alignment.",
     "property-based testing (rapid): differential / metamorphic relation between two commands",
     VAR_GEN + " (SAM form only); non-trivial = a query with >= 1 indel and >= 1 nucleotide difference; distinct = hash of the case",
     q, t, required_labels=["leg:toMultiAlign", "append-snps", "window", "reference-from-annotation", "format:gb", "format:gff"])

q, t = tiers(8, 1500, 16, 12000, floor_q=500, floor_t=5000, q_timeout=400)
prop("C13", "TestC13", "exploration",
     "For snps, variants and sam variants the same input is run per-sequence and with --aggregate --threshold T. Expected aggregate = for each distinct "
     "mutation string of the per-sequence output, (rows containing it)/(rows) as float64, printed %.9f, kept iff >= T — compared as a set of lines in "
     "both directions; order must be non-decreasing in genomic position (explicit for nuc/ins/del/SNPs, any coordinate of the codon +-2 for aa). "
     "Inputs are built so mutations recur (duplicated rows / record sets); T is 0, 1, c/n exactly (equal to an occurring frequency), or c/n +- 1e-6.",
     "Oracle recomputed from gofasta's own per-sequence output, as the statement defines it; the reference record is excluded by the per-sequence command itself.",
     "property-based testing (rapid): metamorphic relation aggregate == count(per-sequence)",
     "one third of the cases have 20..130 sequences (duplicates); besides the drawn threshold every occurring frequency k/n (up to 8) is tried as the threshold; the cliAgree arm passes --threshold as a string; C03 generator (snps) and the C04 generator (variants, msa and sam form) with duplicated sequences; non-trivial = >= 2 sequences, some mutation with "
     "0 < frequency < 1 and the threshold excluding something; distinct = hash of the case",
     q, t, need_bin=True, required_labels=["kind:snps", "kind:variants", "form:msa", "form:sam", "threshold-binding", "partial-frequency", "threshold-equals-a-frequency-candidate"])

q, t = tiers(8, 3000, 16, 25000, floor_q=400, floor_t=4000, q_timeout=400)
t["fuzz"] = dict(target="FuzzC14", seconds=60)  # thorough: coverage-guided search over the same generator and oracle (rapid.MakeFuzz)
prop("C14", "TestC14", "exploration",
     "The annotation model is rendered as a GenBank flat file and as GFF3 in three dialects (segments on codon boundaries with phase 0, arbitrary "
     "boundaries with spec-correct continuation phases, both), all five location shapes, CDS or mature_protein_region_of_CDS rows, with/without "
     "##sequence-region and extra gene rows; the same alignment (MSA or SAM form) is annotated with both and, per sequence, the multiset of "
     "mutation strings must be equal and each row ordered by position (order inside one position left free, as the statement says).",
     "Only layouts expressible in both formats are generated (every feature named; same strand within a feature).",
     "property-based testing (rapid): differential GenBank vs GFF3 rendering of one model",
     VAR_GEN + "GFF rows optionally coordinate-sorted (rows of one ID not adjacent); ; non-trivial = an aa call inside a reverse or joined feature; distinct = hash of the case",
     q, t, required_labels=["feat:reverse", "feat:joined", "feat:reverse-joined", "gff:spec-phases", "aa-call-in-reverse-or-joined-feature", "form:msa", "form:sam"])

q, t = tiers(8, 1200, 16, 10000, floor_q=500, floor_t=5000, q_timeout=600)
prop("C15", "TestC15", "exploration",
     "Algebraic relations between gofasta's own runs: toMultiAlign --start/--end (each alone, both; every window when L <= 12) == columns of the untrimmed "
     "output (with --pad: N outside); legacy --trim --trimstart a --trimend b (binary) == --start a+1 --end b; toPairAlign --start/--end == untrimmed pair "
     "cut from the column of base s to that of base e; --wrap w for both commands un-wrapped == unwrapped and every line but the last has exactly w "
     "characters; variants / sam variants --start, --end, both == unrestricted row filtered by s <= p <= e (explicit p for nuc/ins/del, first base of the "
     "codon for aa; codons spanning a join are left free); variants reading the alignment from a real stdin pipe (reference first) == reading the file.",
     "aa records of codons that span a join have no position pinned by the statement and are allowed either way near the window edge.",
     "property-based testing (rapid): metamorphic/algebraic relations between runs, bounded-exhaustive windows for small references; process-level for cobra-layer flags and stdin",
     "C01/C02/C04 generators; non-trivial = a window strictly inside the reference (toma/topa), wrap shorter than the row, a window that keeps some but not all "
     "mutations, legacy-flag and stdin runs; one variants-window case in ten also passes its window (start alone / end alone / both) through the binary; distinct = hash of the case",
     q, t, need_bin=True, required_labels=["kind:toma-window", "kind:topa-window", "kind:wrap", "kind:variants-window", "kind:legacy-flags", "kind:stdin",
                                           "all-windows-enumerated", "start-alone", "end-alone", "both-bounds", "pad"])

UD_GEN = ("reference A/C/G/T of width 6..30; a pool of 2..6 (position, allele) SNPs; 1..3 queries and 1..20 targets built from the pool, from a query "
          "(identical / child) or from an earlier target (copies), with ambiguity symbols over SNP positions and N tracts, so that shared SNPs, multiple "
          "hits, ties on distance and ambiguity count and every bin occur; options: --size-total | --size-up/-down/-side/-same in 0..3 | none; --dist-all | "
          "--dist-up/-down/-side | none; --no-fill; --dist-push 1..3 (alone); --threshold-pair in {0,.1,.25,.5,1}; --threshold-target; --ignore; --table")

q, t = tiers(8, 5000, 16, 30000, floor_q=1000, floor_t=10000, q_timeout=400)
t["fuzz"] = dict(target="FuzzC08", seconds=60)  # thorough: coverage-guided search over the same generator and oracle (rapid.MakeFuzz)
prop("C08", "TestC08", "exploration",
     "Oracle computed from the raw sequences: per (query,target) the bin from which sequence carries A/C/G/T differences from the reference the other lacks, "
     "distance = columns where both are A/C/G/T and differ, float32 pairwise ambiguity ratio, target ambiguity filter, ignore list; candidates per bin "
     "sorted by (distance, ambiguity count, file order) and cut by the bin's distance limit. The output (list and --table forms, distances included) is "
     "validated: every bin is a prefix of its candidates in that order; total <= limit; --no-fill => min(requested, available); otherwise total = "
     "min(limit, supply), every bin >= min(requested, available) and extras are even (no bin with spare is two behind another); --dist-push k => exactly "
     "the targets at the k smallest occurring distances, nearest first, and `same` = every identical target. Bounded-exhaustive arm: all supplies x "
     "requested sizes in 0..3 per bin x --no-fill (130k allocation points; all in thorough, 1/8 sample in quick) realised with synthetic targets.",
     "Where the specification admits several outputs (fill order, remainder of --size-total) the oracle is a validity predicate; -1 'easter egg' sizes are not generated.",
     "property-based testing (rapid) + bounded-exhaustive enumeration against a sequence-level reference model / validity predicate",
     UD_GEN + "one case in 8 is 66..240 columns wide with periodic ambiguity tracts; one in 3 gives query and/or target as updown-list CSV; 1 in 20 also runs the binary; ; non-trivial = a bin is short while another has spare (fill happens), or a threshold binds, or a multiple hit changes a distance, or dist-push cuts; distinct = hash of the case",
     q, t, need_bin=True, required_labels=["fill-happens", "no-fill", "size-total", "size-per-bin", "dist-limits", "dist-limit-cuts", "dist-push", "dist-push-cuts",
                            "pair-threshold-binds", "target-threshold-binds", "multiple-hit", "ignore", "table"],
     exhaustive_note="allocation arithmetic: supplies 0..3^4 x requested 0..3^4 x no-fill (thorough: all points; quick: 1/8 sample rotated by seed)")

q, t = tiers(8, 2500, 16, 20000, floor_q=1000, floor_t=10000, q_timeout=600)
prop("C09", "TestC09", "exploration",
     "Differential: the CSVs are produced by gofasta's own `updown list` from the generated alignments; topranking is run under the four "
     "(query,target) in {fasta,csv}^2 combinations with the same options and the four outputs must be byte-identical; the csv/csv output is also parsed "
     "and must have exactly one row per query in query-file order (list form) / contiguous ordered blocks (table form).",
     "Same generator and option space as C08, with >= 2 queries in ~80% of cases.",
     "property-based testing (rapid): differential between input formats",
     UD_GEN + "IUPAC codes in the reference in a third of the cases; wide alignments as C08; 1 case in 2500 is 11-13k columns wide with rows beyond 64 KiB; ; non-trivial = >= 2 queries and some non-empty bin; distinct = hash of the case",
     q, t, required_labels=["queries>=2", "table", "dist-push"])

q, t = tiers(8, 500, 16, 3000, floor_q=300, floor_t=3000, q_timeout=600)
prop("C19", "TestC19", "fault_enumeration",
     "For 14 exported entry points (snps, variants, sam variants each with and without --aggregate; toMultiAlign with and without --wrap; closest, closest -n, "
     "closest -n --table; updown list; topranking list and --table) and rapid-generated valid inputs, a counting io.Writer first records the number N of "
     "Write calls of the fault-free run (which must succeed); then for EVERY k in 1..N the run is repeated with the k-th Write failing once, and again "
     "with every Write from the k-th on failing: the call must return a non-nil error, within 10 s, without panicking. Process level (binary built from "
     "the tree): every command with -o /dev/full or stdout on /dev/full, `toPairAlign -o stdout >/dev/full`, and toPairAlign with one query's "
     "output file pre-placed as a symlink to /dev/full must exit non-zero.",
     "Fault points are enumerated completely per input; inputs are generated. Close() errors are not injected (os.File writes are unbuffered, so ENOSPC surfaces on Write).",
     "fault injection: exhaustive enumeration of write-fault points per generated input (rapid), in-process failing io.Writer + process-level /dev/full",
     "inputs from the C03/C04/C01/C06/C08 generators (>= 3 output rows for snps); coverage.evaluations counts injected-fault executions (coverage.cases = generated inputs); "
     "one case in 10 is a large-output run (2500..5000 records, output beyond 64 KiB) whose fault points are the first/last six writes, the quartiles and 8 drawn positions; non-trivial = an input whose run performs >= 2 writes (faults after the header), and every process-level /dev/full run; distinct = hash of the case",
     q, t, need_bin=True,
     required_labels=["entry:snps", "entry:snps-aggregate", "entry:variants", "entry:variants-aggregate", "entry:sam-variants", "entry:sam-variants-aggregate",
                      "entry:toMultiAlign", "entry:toMultiAlign-wrap", "entry:closest", "entry:closestN", "entry:closestN-table", "entry:updown-list",
                      "entry:topranking", "entry:topranking-table", "proc:toPairAlign-stdout", "proc:toPairAlign-symlink"])

q, t = tiers(8, 600, 16, 4000, floor_q=500, floor_t=5000, q_timeout=600, t_timeout=3000)
prop("C18", "TestC18", "exploration",
     "Process level, binary built from the tree. For each of snps, closest (plain and -n), updown list, updown topranking (fasta or csv query/target), "
     "variants, sam toMultiAlign, sam toPairAlign, sam variants a valid input is generated (and first run to confirm exit 0), then exactly one "
     "documented corruption is applied: unequal row, non-IUPAC symbol (at the first, middle or last record), 0-byte file, missing file, second record in "
     "--reference, width mismatch between the command's two alignments, annotation/reference one base longer than the alignment's reference row, "
     "0-byte SAM, header-less SAM (toMultiAlign), --start/--end outside 1..L or start > end (toMultiAlign/toPairAlign), unknown annotation suffix, "
     "0-byte CSV, CSV that is not `updown list` output, topranking without any size/dist option — to any of the command's input files. The run must "
     "terminate (5 s, re-confirmed with 25 s before a hang counts) with a non-zero exit status.",
     "Exit 1 (error) and exit 2 (Go panic) both satisfy the statement as written; the class is recorded as a label. Only conditions gofasta documents or checks are injected; files a command never opens are not corrupted.",
     "property-based testing (rapid) with structured corruption of valid inputs, process-level exit-status oracle",
     "valid inputs from the C03/C06/C08/C04/C01 generators; an unequal row is off by one symbol, by many, by half, or reduced to a bare header, at the first, middle or last record; a second --reference record may be a bare header; CSV inputs are corrupted as a whole or in one row (malformed SNP token / ambiguity range, missing or extra field, non-numeric ambcount); topranking runs with drawn size / dist / push modes and thresholds; non-trivial = corruption at a non-first record or in a secondary input file or in the options; distinct = hash of the case",
     q, t, need_bin=True,
     required_labels=["cmd:snps", "cmd:closest", "cmd:updown list", "cmd:updown topranking", "cmd:variants", "cmd:sam toMultiAlign", "cmd:sam toPairAlign", "cmd:sam variants",
                      "corruption:unequal-row", "corruption:non-iupac", "corruption:empty-file", "corruption:missing-file", "corruption:empty-sam",
                      "corruption:width-mismatch", "corruption:reference-two-records", "corruption:empty-csv", "corruption:csv-not-updown-list"])

q, t = tiers(8, 250, 16, 600, floor_q=300, floor_t=1500, q_timeout=600, t_timeout=3000)
t["race"] = True
t["checks"] = 400
q["race_arm"] = dict(shards=4, checks=60)
prop("C12", "TestC12", "exploration",
     "For every command (sam toMultiAlign with/without --wrap, toPairAlign directory and -o stdout, sam variants and variants with/without --aggregate, snps "
     "with/without --aggregate, closest, closest -n with/without --table, updown list, updown topranking list/--table) an input with >= 8 records is generated "
     "(with equal-distance targets, recurring mutations, features sharing a start, same-position aggregate entries) and run under 2..4 configurations x 1..3 "
     "repetitions: --threads in {1,2,3,4,8,16}, GOMAXPROCS in {1,2,4,16}, and a scheduling-jitter seed (hook pkg/vhook, build tag verif: each worker "
     "sleeps 0..300 us or yields before its channel send as a pure function of (seed, site, record index), and counts completion-order inversions); every "
     "run's bytes must equal the baseline run (threads 1, no jitter), and three more baseline runs must equal the first (hash-map iteration order). The "
     "thorough tier builds harness and gofasta with -race and GORACE=halt_on_error=1, so a detected data race kills the shard on the case in flight, which "
     "the driver then replays to confirm and report.",
     "Explores the interleavings that jitter at the seven stage boundaries, thread counts and GOMAXPROCS can produce, plus the race detector; it cannot enumerate all interleavings nor prove race freedom. A green run means no divergence in the N perturbed schedules listed in the evidence (coverage.counters.runs / runs_with_completion_order_inversion). `sam indels` is out of scope.",
     "property-based testing (rapid): metamorphic relation output(configuration) == output(baseline) under seeded schedule perturbation; race detector in the thorough tier",
     "one SAM case in 5 has 300..700 records and one in 5 operators longer than 256/4096; one configuration in 3 holds one record's worker back 1-8 ms (slow-record hook); one case in 4 runs fresh processes of the binary instead of the library; inputs from the C01/C04/C03/C06/C08 generators padded to >= 8 records; non-trivial = a run in which the hook observed a completion-order inversion, or threads > 1 with >= 8 records; distinct = hash of the case (input + configurations)",
     q, t, need_bin=True, required_labels=["cmd:toMultiAlign", "cmd:toPairAlign", "cmd:toPairAlign-stdout", "cmd:sam-variants", "cmd:variants", "cmd:snps", "cmd:closest", "cmd:closestN",
                            "cmd:updown-list", "cmd:topranking", "inversion-observed"])

NOT_CLAIMED = {}


def write_manifest(here):
    props = [json.loads(l) for l in open(os.path.join(here, "properties.jsonl"))]
    checks = []
    for p in props:
        pid = p["id"]
        if pid not in PROPS:
            continue
        P = PROPS[pid]
        checks.append(dict(
            property_id=pid,
            quick_cmd="./check %s --tier quick" % pid,
            thorough_cmd="./check %s --tier thorough" % pid,
            evidence_file="/verif/evidence/%s.json" % pid,
            replay_cmd_template="./check %s --replay {path}" % pid,
            engine="rapid-harness",
            level_claimed=dict(category=P["level"], text=P["text"], design_ref=P["design_ref"]),
            level_note=P["note"],
            technique=P["technique"],
        ))
    na = []
    for p in props:
        if p["id"] not in PROPS:
            na.append(dict(property_id=p["id"], reason=NOT_CLAIMED.get(p["id"], "check not built yet in this round; see DESIGN.md §4 for the planned generator and oracle")))
    hooks_path = os.path.join(here, "hooks.json")
    hooks = dict(guard="verif", enable="go build/test -tags verif (the harness passes the tag on every build of /repo's packages)",
                 baseline_off_cmd="cd /repo && go test -vet=off -count=1 ./...", source_commits=[], add_only=True)
    if os.path.exists(hooks_path):
        hooks.update(json.load(open(hooks_path)))
    m = dict(
        version=1,
        setup_cmd="./check --setup",
        hooks=hooks,
        engines=[dict(name="rapid-harness", path="/verif/harness", serves_properties=sorted(PROPS),
                      kind_free_text="Go test binary built from /verif/harness against /repo's working tree (go.mod replace), "
                                     "pgregory.net/rapid generators + independent reference models; driven and sharded by /verif/check")],
        checks=checks,
        notes="Every check is `./check <ID> --tier quick|thorough`; VERIF_SEED selects the rapid seeds (shard i uses 1+64*seed+i). "
              "Exit 0 held / 1 VIOLATION / 2 inconclusive. known_findings.json lists fixed and open findings.",
        not_applicable=na,
    )
    json.dump(m, open(os.path.join(here, "MANIFEST.json"), "w"), indent=1)
    print("MANIFEST.json: %d checks, %d not claimed" % (len(checks), len(na)))
