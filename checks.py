"""Table of claimed properties: how each check is run, and what goes into MANIFEST.json.

`./check --manifest` regenerates MANIFEST.json from this table, so the two cannot drift apart.
A property absent from PROPS is listed under not_applicable with the reason in NOT_CLAIMED.
"""
import json, os

COMMON_ASSUMPTIONS = [
    "the Go toolchain, pgregory.net/rapid v1.3.0 and the harness' own reference models are trusted",
    "verdict covers only the generated inputs; no absence proof outside parts marked exhaustive",
]


def tiers(q_shards, q_checks, t_shards, t_checks, q_timeout=240, t_timeout=1500, floor_q=20, floor_t=100, **kw):
    q = dict(shards=q_shards, checks=q_checks, timeout=q_timeout, floor=floor_q)
    t = dict(shards=t_shards, checks=t_checks, timeout=t_timeout, floor=floor_t)
    q.update(kw.get("q", {}))
    t.update(kw.get("t", {}))
    return q, t


PROPS = {}


def prop(pid, test, level, text, note, technique, rule, q, t, need_bin=False, assumptions=None, required_labels=None, design_ref=None, exhaustive_note=None):
    PROPS[pid] = dict(test=test, level=level, text=text, note=note, technique=technique, rule=rule, quick=q, thorough=t,
                      need_bin=need_bin, assumptions=(assumptions or []) + COMMON_ASSUMPTIONS,
                      required_labels=required_labels or [], design_ref=design_ref or ("DESIGN.md §4 " + pid),
                      exhaustive_note=exhaustive_note)


# ------------------------------------------------------------------------------------------------
q, t = tiers(2, 1500, 16, 20000, floor_q=3000, floor_t=3000)
prop("C17", "TestC17", "exploration",
     "Exhaustive enumeration of all 3375 IUPAC codons (lenient and strict translation and the codon dictionary itself) against an "
     "every-expansion oracle built from the NCBI table-1 string, of all 32 accepted characters (and all 95 other ASCII bytes) for the "
     "complement / encode / decode / score tables in text and bit-encoded form, plus rapid-generated strings for the involution and "
     "text-vs-encoded agreement laws. The finite part is complete, so for it the verdict is a decision, not a sample.",
     "Oracle = NCBI transl_table=1 string and IUPAC set table typed in independently of gofasta's tables.",
     "bounded-exhaustive enumeration + property-based testing (rapid) against an independent reference model",
     "codons: all 15^3 enumerated, non-trivial = contains an ambiguity code; characters: all 32 accepted enumerated; strings: rapid, "
     "length 0..40 over the 32 accepted characters, non-trivial = length >= 2; distinct = hash of the case",
     q, t, required_labels=["codon:ambiguous-resolvable", "char", "string:len>=2"],
     exhaustive_note="all 15^3 codons x {lenient, strict, dictionary}; all 32 accepted + 95 rejected ASCII characters")

NOT_CLAIMED = {}


def write_manifest(here):
    props = [json.loads(l) for l in open(os.path.join(here, "properties.jsonl"))]
    checks = []
    for p in props:
        pid = p["id"]
        if pid not in PROPS:
            continue
        P = PROPS[pid]
        checks.append(dict(
            property_id=pid,
            quick_cmd="./check %s --tier quick" % pid,
            thorough_cmd="./check %s --tier thorough" % pid,
            evidence_file="/verif/evidence/%s.json" % pid,
            replay_cmd_template="./check %s --replay {path}" % pid,
            engine="rapid-harness",
            level_claimed=dict(category=P["level"], text=P["text"], design_ref=P["design_ref"]),
            level_note=P["note"],
            technique=P["technique"],
        ))
    na = []
    for p in props:
        if p["id"] not in PROPS:
            na.append(dict(property_id=p["id"], reason=NOT_CLAIMED.get(p["id"], "check not built yet in this round; see DESIGN.md §4 for the planned generator and oracle")))
    hooks_path = os.path.join(here, "hooks.json")
    hooks = dict(guard="verif", enable="go build/test -tags verif (the harness passes the tag on every build of /repo's packages)",
                 baseline_off_cmd="cd /repo && go test -vet=off -count=1 ./...", source_commits=[], add_only=True)
    if os.path.exists(hooks_path):
        hooks.update(json.load(open(hooks_path)))
    m = dict(
        version=1,
        setup_cmd="./check --setup",
        hooks=hooks,
        engines=[dict(name="rapid-harness", path="/verif/harness", serves_properties=sorted(PROPS),
                      kind_free_text="Go test binary built from /verif/harness against /repo's working tree (go.mod replace), "
                                     "pgregory.net/rapid generators + independent reference models; driven and sharded by /verif/check")],
        checks=checks,
        notes="Every check is `./check <ID> --tier quick|thorough`; VERIF_SEED selects the rapid seeds (shard i uses 1+64*seed+i). "
              "Exit 0 held / 1 VIOLATION / 2 inconclusive. known_findings.json lists fixed and open findings.",
        not_applicable=na,
    )
    json.dump(m, open(os.path.join(here, "MANIFEST.json"), "w"), indent=1)
    print("MANIFEST.json: %d checks, %d not claimed" % (len(checks), len(na)))
