#!/usr/bin/env python3
"""Sensitivity helper: apply a textual mutation (or a patch file) to a scratch copy of /repo, run the
named checks against the copy (VERIF_REPO), report which ones catch it, delete the copy.
usage: tools_mutant.py --file pkg/x.go --old 'a' --new 'b' [--count N] C01 C02 ...
       tools_mutant.py --patch some.diff C01 ..."""
import argparse, os, shutil, subprocess, sys, tempfile
ap = argparse.ArgumentParser()
ap.add_argument('--file'); ap.add_argument('--old'); ap.add_argument('--new'); ap.add_argument('--patch')
ap.add_argument('--count', type=int, default=1); ap.add_argument('--tier', default='quick'); ap.add_argument('--seed', default='0')
ap.add_argument('props', nargs='+')
a = ap.parse_args()
d = tempfile.mkdtemp(prefix='mut-', dir='/dev/shm')
try:
    subprocess.check_call(['rsync', '-a', '--exclude', '.git', '/repo/', d + '/'])
    if a.patch:
        subprocess.check_call(['patch', '-p1', '-s', '-d', d, '-i', os.path.abspath(a.patch)])
    else:
        p = os.path.join(d, a.file)
        s = open(p).read()
        if s.count(a.old) != a.count:
            print('mutation site count %d != %d' % (s.count(a.old), a.count)); sys.exit(3)
        open(p, 'w').write(s.replace(a.old, a.new))
    env = dict(os.environ, VERIF_REPO=d, VERIF_SEED=a.seed)
    r = subprocess.run(['go', 'build', './...'], cwd=d, env=dict(env, GOFLAGS='-mod=mod', GOPROXY='off'), stdout=subprocess.PIPE, stderr=subprocess.STDOUT, text=True)
    if r.returncode != 0:
        print('mutant does not compile:\n' + r.stdout); sys.exit(3)
    for pid in a.props:
        r = subprocess.run(['/verif/check', pid, '--tier', a.tier], env=env, stdout=subprocess.PIPE, stderr=subprocess.STDOUT, text=True)
        v = [l for l in r.stdout.splitlines() if l.startswith('VIOLATION')]
        print('%s: exit %d %s' % (pid, r.returncode, 'CAUGHT' if r.returncode == 1 and v else 'MISSED' if r.returncode == 0 else 'INFRA'))
        if r.returncode != 0:
            print('   ' + '\n   '.join(r.stdout.splitlines()[-6:])[:1500])
finally:
    shutil.rmtree(d, ignore_errors=True)
