package harness

// Annotation model: coding features (name, strand, 1..3 segments, codon_start) over a reference,
// rendered both as a GenBank flat file and as GFF3, plus the generator that builds a reference whose
// features are well-formed (A/C/G/T inside features, no internal stop, terminal stop codon).

import (
	"fmt"
	"sort"
	"strings"

	"pgregory.net/rapid"
)

type Seg struct {
	Start int `json:"start"` // 1-based inclusive
	End   int `json:"end"`
}

type Feat struct {
	Name       string `json:"name"` // "" = unnamed (GFF only)
	Strand     int    `json:"strand"`
	Segs       []Seg  `json:"segs"` // ascending genomic order, non-overlapping
	CodonStart int    `json:"codon_start"`
	GFFType    string `json:"gff_type"` // CDS | mature_protein_region_of_CDS
	GBStyle    int    `json:"gb_style"` // reverse multi-segment: 0 complement(join()), 1 join(complement(),...)
}

type Anno struct {
	RefName string `json:"ref_name"`
	Ref     string `json:"ref"` // ungapped reference, upper case
	Feats   []Feat `json:"feats"`
	Unsorted bool  `json:"features_not_in_ascending_order,omitempty"`
	MaskedInCDS bool `json:"reference_masked_inside_cds,omitempty"`
	TwoProducts bool `json:"two_products_of_one_gene,omitempty"`
}

// codingPositions: 1-based reference positions in translation order, after codon_start trimming.
func (f Feat) codingPositions() []int {
	var pos []int
	if f.Strand >= 0 {
		for _, s := range f.Segs {
			for i := s.Start; i <= s.End; i++ {
				pos = append(pos, i)
			}
		}
	} else {
		for j := len(f.Segs) - 1; j >= 0; j-- {
			for i := f.Segs[j].End; i >= f.Segs[j].Start; i-- {
				pos = append(pos, i)
			}
		}
	}
	return pos[f.CodonStart-1:]
}

func (f Feat) allPositions() []int {
	cs := f.CodonStart
	f.CodonStart = 1
	p := f.codingPositions()
	f.CodonStart = cs
	return p
}

func (f Feat) minPos() int { return f.Segs[0].Start }
func (f Feat) maxPos() int { return f.Segs[len(f.Segs)-1].End }

// codonOf returns the codon string of the feature's k-th codon (0-based) read from symAt.
func (f Feat) codon(k int, symAt func(pos int) byte) string {
	cp := f.codingPositions()
	b := make([]byte, 3)
	for i := 0; i < 3; i++ {
		c := upper(symAt(cp[3*k+i]))
		if f.Strand < 0 {
			if _, ok := baseSet(c, false); ok && c != '-' && c != '?' {
				c = complementBase(c)
			}
		}
		b[i] = c
	}
	return string(b)
}

func (f Feat) nCodons() int { return len(f.codingPositions()) / 3 }

func (a Anno) refTranslation(f Feat) string {
	var sb strings.Builder
	for k := 0; k < f.nCodons(); k++ {
		sb.WriteByte(translateCodonModel(f.codon(k, func(p int) byte { return a.Ref[p-1] })))
	}
	return sb.String()
}

// ---- GenBank rendering ---------------------------------------------------------------------------

func (f Feat) gbLocation() string {
	rng := func(s Seg) string { return fmt.Sprintf("%d..%d", s.Start, s.End) }
	if f.Strand >= 0 {
		if len(f.Segs) == 1 {
			return rng(f.Segs[0])
		}
		var p []string
		for _, s := range f.Segs {
			p = append(p, rng(s))
		}
		return "join(" + strings.Join(p, ",") + ")"
	}
	if len(f.Segs) == 1 {
		return "complement(" + rng(f.Segs[0]) + ")"
	}
	if f.GBStyle == 0 {
		var p []string
		for _, s := range f.Segs {
			p = append(p, rng(s))
		}
		return "complement(join(" + strings.Join(p, ",") + "))"
	}
	var p []string
	for j := len(f.Segs) - 1; j >= 0; j-- {
		p = append(p, "complement("+rng(f.Segs[j])+")")
	}
	return "join(" + strings.Join(p, ",") + ")"
}

func (a Anno) renderGenbank() string {
	var sb strings.Builder
	L := len(a.Ref)
	sb.WriteString(fmt.Sprintf("LOCUS       %-16s %d bp ss-RNA     linear   VRL 18-MAR-2020\n", "TESTREF", L))
	sb.WriteString("DEFINITION  Synthetic reference for property checks.\n")
	sb.WriteString("ACCESSION   TESTREF\n")
	sb.WriteString("FEATURES             Location/Qualifiers\n")
	sb.WriteString(fmt.Sprintf("     source          1..%d\n", L))
	sb.WriteString("                     /organism=\"Synthetic construct\"\n")
	sb.WriteString("                     /mol_type=\"genomic RNA\"\n")
	for _, f := range a.Feats {
		if f.Name == "" {
			continue // GenBank CDS always carry /gene (absence is a documented refusal)
		}
		sb.WriteString("     gene            " + fmt.Sprintf("%d..%d", f.minPos(), f.maxPos()) + "\n")
		sb.WriteString("                     /gene=\"" + f.Name + "\"\n")
		sb.WriteString("     CDS             " + f.gbLocation() + "\n")
		sb.WriteString("                     /gene=\"" + f.Name + "\"\n")
		sb.WriteString(fmt.Sprintf("                     /codon_start=%d\n", f.CodonStart))
		sb.WriteString("                     /product=\"protein " + f.Name + "\"\n")
		tr := a.refTranslation(f)
		tr = strings.TrimSuffix(tr, "*") // GenBank translations exclude the terminal stop
		q := "/translation=\"" + tr + "\""
		// wrap at 58 characters per line like NCBI does
		for i := 0; i < len(q); i += 58 {
			j := i + 58
			if j > len(q) {
				j = len(q)
			}
			sb.WriteString("                     " + q[i:j] + "\n")
		}
	}
	sb.WriteString("ORIGIN\n")
	low := strings.ToLower(a.Ref)
	for i := 0; i < L; i += 60 {
		sb.WriteString(fmt.Sprintf("%9d", i+1))
		for j := i; j < i+60 && j < L; j += 10 {
			k := j + 10
			if k > L {
				k = L
			}
			sb.WriteString(" " + low[j:k])
		}
		sb.WriteString("\n")
	}
	sb.WriteString("//\n")
	return sb.String()
}

// ---- GFF3 rendering --------------------------------------------------------------------------------

type gffOpts struct {
	SpecPhases     bool `json:"spec_phases"`     // continuation rows carry the GFF3-spec phase (else 0)
	SequenceRegion bool `json:"sequence_region"` // emit ##sequence-region
	WithFasta      bool `json:"with_fasta"`      // emit ##FASTA section
	GeneRows       bool `json:"gene_rows"`       // emit extra non-CDS rows (gene), which must be ignored
	SortRows       bool `json:"sort_rows"`       // rows in coordinate order: rows sharing an ID are no longer adjacent
	NoFinalNL      bool `json:"no_final_newline"` // the file's last line (a feature line when there is no ##FASTA section) is not terminated
	ParentAttr     bool `json:"parent_attr"`     // NCBI style: CDS rows carry Parent=gene-k (two neighbouring features share one gene) and further attributes
}

func (a Anno) renderGFF(o gffOpts) string {
	var sb strings.Builder
	L := len(a.Ref)
	sb.WriteString("##gff-version 3\n")
	if o.SequenceRegion {
		sb.WriteString(fmt.Sprintf("##sequence-region %s 1 %d\n", a.RefName, L))
	}
	sb.WriteString("#!annotation-source synthetic\n")
	type gffRow struct {
		start, order int
		text         string
	}
	var rows []gffRow
	for fi, f := range a.Feats {
		id := fmt.Sprintf("cds%d", fi+1)
		typ := f.GFFType
		if typ == "" {
			typ = "CDS"
		}
		strand := "+"
		if f.Strand < 0 {
			strand = "-"
		}
		if o.GeneRows {
			gid := fmt.Sprintf("gene%d", fi+1)
			if o.ParentAttr {
				gid = fmt.Sprintf("gene-%d", fi/2+1)
			}
			if !o.ParentAttr || fi%2 == 0 {
				rows = append(rows, gffRow{f.minPos(), len(rows), fmt.Sprintf("%s\tsynthetic\tgene\t%d\t%d\t.\t%s\t.\tID=%s\n", a.RefName, f.minPos(), f.maxPos(), strand, gid)})
			}
		}
		// phases per row, in translation order
		order := make([]int, len(f.Segs))
		for i := range order {
			if f.Strand >= 0 {
				order[i] = i
			} else {
				order[i] = len(f.Segs) - 1 - i
			}
		}
		phase := make([]int, len(f.Segs))
		consumed := 0
		for n, si := range order {
			segLen := f.Segs[si].End - f.Segs[si].Start + 1
			if n == 0 {
				phase[si] = f.CodonStart - 1
				consumed = segLen - (f.CodonStart - 1)
			} else {
				if o.SpecPhases {
					phase[si] = (3 - consumed%3) % 3
				}
				consumed += segLen
			}
		}
		for si, s := range f.Segs {
			attrs := "ID=" + id
			if o.ParentAttr {
				// as in NCBI's files, where e.g. the two ORF1 polyproteins are distinct CDS features under one gene
				attrs += fmt.Sprintf(";Parent=gene-%d;Dbxref=GeneID:%d", fi/2+1, 43740560+fi)
			}
			if f.Name != "" {
				attrs += ";Name=" + f.Name
			}
			if o.ParentAttr {
				attrs += ";gbkey=CDS"
			}
			rows = append(rows, gffRow{s.Start, len(rows), fmt.Sprintf("%s\tsynthetic\t%s\t%d\t%d\t.\t%s\t%d\t%s\n", a.RefName, typ, s.Start, s.End, strand, phase[si], attrs)})
		}
	}
	if o.SortRows {
		// coordinate-sorted file (stable): the rows of a joined CDS are separated by whatever lies in its gaps
		sort.SliceStable(rows, func(i, j int) bool { return rows[i].start < rows[j].start })
	}
	for _, r := range rows {
		sb.WriteString(r.text)
	}
	if o.WithFasta {
		sb.WriteString("##FASTA\n>" + a.RefName + "\n")
		for i := 0; i < L; i += 70 {
			j := i + 70
			if j > L {
				j = L
			}
			sb.WriteString(a.Ref[i:j] + "\n")
		}
	}
	if o.NoFinalNL {
		return strings.TrimSuffix(sb.String(), "\n")
	}
	return sb.String()
}

// ---- generation -------------------------------------------------------------------------------------

type annoGenOpts struct {
	minRef, maxRef int
	maxFeats       int
	allowUnnamed   bool // GFF only
	codonAligned   bool // segment boundaries on codon boundaries (GFF dialect i)
	iupacOutside   bool
	twoProducts    bool // C14 only: a second, differently spliced product of one gene under the same name (as ORF1a / ORF1ab)
}

func isStop(c string) bool { return c == "TAA" || c == "TAG" || c == "TGA" }

// repairReference makes every feature well-formed on the reference (deterministic, no draws):
// terminal codon a stop, no internal stop. Returns false if the overlaps make that impossible.
func repairReference(ref []byte, feats []Feat) bool {
	write := func(f Feat, k int, codon string) {
		cp := f.codingPositions()
		for i := 0; i < 3; i++ {
			c := codon[i]
			if f.Strand < 0 {
				c = complementBase(c)
			}
			ref[cp[3*k+i]-1] = c
		}
	}
	for iter := 0; iter < 60; iter++ {
		ok := true
		for _, f := range feats {
			n := f.nCodons()
			for k := 0; k < n; k++ {
				c := f.codon(k, func(p int) byte { return ref[p-1] })
				if k == n-1 {
					if !isStop(c) {
						write(f, k, []string{"TAA", "TAG", "TGA"}[(iter+k)%3])
						ok = false
					}
				} else if isStop(c) {
					// change one base (rotating which) to leave the stop set
					alt := []string{c[:2] + "C", "C" + c[1:], c[:1] + "C" + c[2:]}[(iter)%3]
					write(f, k, alt)
					ok = false
				}
			}
		}
		if ok {
			return true
		}
	}
	return false
}

func genFeature(t *rapid.T, L int, idx int, o annoGenOpts) (Feat, bool) {
	f := Feat{Strand: 1, CodonStart: 1, GFFType: "CDS"}
	if rapid.IntRange(0, 2).Draw(t, "reverse") == 0 {
		f.Strand = -1
	}
	if rapid.IntRange(0, 3).Draw(t, "codonStartNot1") == 0 {
		f.CodonStart = rapid.IntRange(2, 3).Draw(t, "codonStart")
	}
	if rapid.IntRange(0, 4).Draw(t, "matPeptide") == 0 {
		f.GFFType = "mature_protein_region_of_CDS"
	}
	f.GBStyle = rapid.IntRange(0, 1).Draw(t, "gbStyle")
	nseg := rapid.SampledFrom([]int{1, 1, 1, 2, 2, 3}).Draw(t, "nSegs")
	// draw segment lengths and gaps, then place
	lens := make([]int, nseg)
	gaps := make([]int, nseg) // gap before segment i (i>0)
	total := 0
	for i := range lens {
		lens[i] = rapid.IntRange(1, 14).Draw(t, "segLen")
		if i > 0 {
			// -1: the next segment restarts on the previous segment's last base (ribosomal slippage,
			// like SARS-CoV-2 orf1ab join(266..13468,13468..21555)); 0: abutting segments
			gaps[i] = rapid.SampledFrom([]int{-1, 0, 1, 1, 2, 3, 5}).Draw(t, "segGap")
		}
		total += lens[i] + gaps[i]
	}
	// make coding length a multiple of 3 (>= 3) by adjusting segment lengths
	adjust := func() bool {
		if o.codonAligned {
			// every segment a multiple of 3, the first translated one offset by codon_start-1
			first := 0
			if f.Strand < 0 {
				first = nseg - 1
			}
			for i := range lens {
				off := 0
				if i == first {
					off = f.CodonStart - 1
				}
				n := lens[i] - off
				if n < 3 {
					n = 3
				}
				n -= n % 3
				lens[i] = n + off
			}
			return true
		}
		sum := 0
		for _, l := range lens {
			sum += l
		}
		coding := sum - (f.CodonStart - 1)
		for coding < 3 || coding%3 != 0 {
			lens[nseg-1]++
			coding++
		}
		return true
	}
	{
		// codon_start never reaches past the first translated segment (a gff phase larger than its own
		// line has no meaning)
		first := 0
		if f.Strand < 0 {
			first = nseg - 1
		}
		if lens[first] < f.CodonStart {
			lens[first] = f.CodonStart
		}
	}
	adjust()
	total = 0
	for i := range lens {
		total += lens[i] + gaps[i]
	}
	if total > L {
		return f, false
	}
	start := rapid.IntRange(1, L-total+1).Draw(t, "featStart")
	if rapid.IntRange(0, 7).Draw(t, "featAt1") == 0 {
		start = 1
	}
	p := start
	for i := range lens {
		p += gaps[i]
		f.Segs = append(f.Segs, Seg{Start: p, End: p + lens[i] - 1})
		p += lens[i]
	}
	names := []string{"orf1ab", "S", "ORF3a", "E", "M", "nsp12", "N", "ORF8"}
	f.Name = names[idx%len(names)]
	if o.allowUnnamed && rapid.IntRange(0, 3).Draw(t, "unnamed") == 0 {
		f.Name = ""
	}
	return f, true
}

func genAnno(t *rapid.T, o annoGenOpts) Anno {
	L := rapid.IntRange(o.minRef, o.maxRef).Draw(t, "refLen")
	ref := []byte(genACGT(t, L, "refBase"))
	a := Anno{RefName: rapid.SampledFrom([]string{"ref", "MN908947.3", "NC_045512.2"}).Draw(t, "refName")}
	nf := rapid.IntRange(0, o.maxFeats).Draw(t, "nFeats")
	var feats []Feat
	for i := 0; i < nf; i++ {
		f, ok := genFeature(t, L, i, o)
		if !ok {
			continue
		}
		// shared-start class: sometimes copy the start of an earlier feature
		if len(feats) > 0 && f.Strand >= 0 && len(f.Segs) == 1 && rapid.IntRange(0, 4).Draw(t, "shareStart") == 0 {
			prev := feats[rapid.IntRange(0, len(feats)-1).Draw(t, "shareWith")]
			d := prev.minPos() - f.Segs[0].Start
			if f.Segs[0].End+d <= L && f.Segs[0].Start+d >= 1 {
				f.Segs[0].Start += d
				f.Segs[0].End += d
			}
		}
		trial := append(append([]Feat{}, feats...), f)
		r2 := append([]byte(nil), ref...)
		if repairReference(r2, trial) {
			feats, ref = trial, r2
		}
	}
	// keep file order = ascending start (as real annotations are), stable
	sort.SliceStable(feats, func(i, j int) bool { return feats[i].minPos() < feats[j].minPos() })
	// unique names
	seen := map[string]int{}
	for i := range feats {
		if feats[i].Name == "" {
			continue
		}
		seen[feats[i].Name]++
		if seen[feats[i].Name] > 1 {
			feats[i].Name = fmt.Sprintf("%s_%d", feats[i].Name, seen[feats[i].Name])
		}
	}
	// two products of one gene (the ORF1a / ORF1ab arrangement): B starts where A starts, in A's frame, leaves A before A's stop
	// codon and continues downstream of A; both carry A's name. Only where the oracle is differential (C14).
	if o.twoProducts && rapid.IntRange(0, 3).Draw(t, "twoProducts") == 0 {
		for ai, A := range feats {
			nA := A.nCodons()
			if A.Name == "" || A.Strand < 0 || len(A.Segs) != 1 || A.CodonStart != 1 || nA < 3 || A.GFFType != "CDS" {
				continue
			}
			s0, e0 := A.Segs[0].Start, A.Segs[0].End
			m := rapid.IntRange(1, nA-2).Draw(t, "sharedCodons")
			n2 := rapid.IntRange(1, 4).Draw(t, "downstreamCodons")
			y := e0 + 1 + rapid.IntRange(0, 6).Draw(t, "downstreamGap")
			z := y + 3*n2 - 1
			if z > L {
				break
			}
			B := Feat{Name: A.Name, Strand: 1, CodonStart: 1, GFFType: "CDS", Segs: []Seg{{s0, s0 + 3*m - 1}, {y, z}}}
			trial := append(append([]Feat{}, feats[:ai+1]...), append([]Feat{B}, feats[ai+1:]...)...)
			r2 := append([]byte(nil), ref...)
			if repairReference(r2, trial) {
				feats, ref = trial, r2
				a.TwoProducts = true
			}
			break
		}
	}
	// IUPAC codes outside every feature
	if o.iupacOutside && rapid.IntRange(0, 4).Draw(t, "refIupac") == 0 {
		inFeat := make([]bool, L+1)
		for _, f := range feats {
			for _, p := range f.allPositions() {
				inFeat[p] = true
			}
		}
		for k := rapid.IntRange(1, 3).Draw(t, "nRefAmb"); k > 0; k-- {
			p := rapid.IntRange(1, L).Draw(t, "refAmbPos")
			if !inFeat[p] {
				ref[p-1] = iupac15[4+rapid.IntRange(0, 10).Draw(t, "refAmbSym")]
			}
		}
	}
	// a masked base inside a gene: N at the third position of a four-fold degenerate codon (GCN, CTN, ...) of one feature, at a
	// position no other feature covers - the reference still translates unambiguously, as both formats require
	maskedInCDS := false
	if o.iupacOutside && len(feats) > 0 && rapid.IntRange(0, 5).Draw(t, "maskedCodingBase") == 0 {
		cov := make([]int, L+1)
		for _, f := range feats {
			for _, p := range f.allPositions() {
				cov[p]++
			}
		}
		f := feats[rapid.IntRange(0, len(feats)-1).Draw(t, "maskedFeature")]
		cp := f.codingPositions()
		if n := len(cp) / 3; n >= 3 {
			k := rapid.IntRange(1, n-2).Draw(t, "maskedCodon")
			sym := func(p int) byte {
				if f.Strand < 0 {
					return complementBase(ref[p-1])
				}
				return ref[p-1]
			}
			two := string([]byte{sym(cp[3*k]), sym(cp[3*k+1])})
			if p3 := cp[3*k+2]; cov[p3] == 1 && strings.Contains("CT GT TC CC AC GC CG GG", two) && isACGT(ref[p3-1]) {
				ref[p3-1] = 'N'
				maskedInCDS = true
			}
		}
	}
	a.MaskedInCDS = maskedInCDS
	// file order: usually ascending, but neither format mandates it (hand-curated GenBank tables list mature peptides after
	// the ORFs, merged annotations append new features at the end) - one annotation in five lists its features in another order
	if len(feats) > 1 && rapid.IntRange(0, 4).Draw(t, "fileOrder") == 0 {
		perm := rapid.Permutation(feats).Draw(t, "featOrder")
		feats = perm
		a.Unsorted = !sort.SliceIsSorted(feats, func(i, j int) bool { return feats[i].minPos() < feats[j].minPos() })
	}
	a.Ref = string(ref)
	a.Feats = feats
	return a
}

func labelAnno(a Anno, o *Obs) {
	for i, f := range a.Feats {
		o.LabelIf(a.Unsorted, "feat:file-order-not-ascending")
		o.LabelIf(a.MaskedInCDS, "feat:reference-N-inside-cds")
		o.LabelIf(a.TwoProducts, "feat:two-products-of-one-gene")
		o.LabelIf(f.Strand < 0, "feat:reverse")
		o.LabelIf(len(f.Segs) > 1, "feat:joined")
		o.LabelIf(f.Strand < 0 && len(f.Segs) > 1, "feat:reverse-joined")
		o.LabelIf(f.CodonStart > 1, "feat:codon_start>1")
		o.LabelIf(f.Name == "", "feat:unnamed")
		for j := 0; j < i; j++ {
			g := a.Feats[j]
			if g.minPos() <= f.maxPos() && f.minPos() <= g.maxPos() {
				o.Label("feat:overlapping")
			}
			o.LabelIf(g.minPos() == f.minPos(), "feat:shared-start")
		}
	}
	o.LabelIf(len(a.Feats) == 0, "anno:no-features")
}
