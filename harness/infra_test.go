package harness

// Shared runner for all property checks.
//
// Each property defines a JSON-serialisable Case type, a rapid generator and a
// checkCase function. runProp wires them to:
//   - regression replay (harness/regressions/<ID>/*.json, run first, without rapid)
//   - single-file replay (VERIF_REPLAY=<file>, without rapid)
//   - the rapid search (case count and seed come from -rapid.checks / -rapid.seed)
//   - statistics (evaluations, distinct non-trivial hashes, labels, samples)
//   - replay files for every failing case (last failing case = rapid's minimal one)
//   - an in-flight file so that a process crash is attributable to one input.

import (
	"crypto/sha256"
	"encoding/binary"
	"encoding/json"
	"fmt"
	"os"
	"path/filepath"
	"runtime"
	"sort"
	"strings"
	"sync"
	"testing"
	"time"

	"pgregory.net/rapid"
)

// Obs is what a checkCase reports about the case it just evaluated.
type Obs struct {
	labels     []string
	nontrivial bool
	known      []string // keys of open known findings this case ran into (excluded, not failed)
}

func (o *Obs) Label(l string) {
	if o != nil {
		o.labels = append(o.labels, l)
	}
}
func (o *Obs) LabelIf(c bool, l string) {
	if c {
		o.Label(l)
	}
}
func (o *Obs) NonTrivial() {
	if o != nil {
		o.nontrivial = true
	}
}
func (o *Obs) Known(key string) {
	if o != nil {
		o.known = append(o.known, key)
	}
}

type statsT struct {
	mu          sync.Mutex
	Property    string            `json:"property"`
	Evaluations int               `json:"evaluations"`
	Nontrivial  int               `json:"nontrivial_evaluations"`
	Labels      map[string]int    `json:"labels"`
	Samples     []json.RawMessage `json:"samples"`
	Excluded    map[string]int    `json:"excluded_known"`
	KnownSeen   map[string]string `json:"known_seen"` // finding key -> one-line description of what failed
	Violations  []violationT      `json:"violations"`
	Regressions int               `json:"regressions_replayed"`
	Extra       map[string]any    `json:"extra"`
	Counters    map[string]int    `json:"counters"` // summed over shards by the driver
	hashes      map[uint64]struct{}
	sampleAt    int
}

type violationT struct {
	Replay  string `json:"replay"`
	Message string `json:"message"`
}

var stats = &statsT{Labels: map[string]int{}, Excluded: map[string]int{}, KnownSeen: map[string]string{}, Extra: map[string]any{}, Counters: map[string]int{}, hashes: map[uint64]struct{}{}, sampleAt: 1}

func hashOf(b []byte) uint64 {
	s := sha256.Sum256(b)
	return binary.LittleEndian.Uint64(s[:8])
}

func (s *statsT) record(caseJSON []byte, o *Obs) {
	s.mu.Lock()
	defer s.mu.Unlock()
	s.Evaluations++
	for _, l := range o.labels {
		s.Labels[l]++
	}
	for _, k := range o.known {
		s.Excluded[k]++
	}
	if o.nontrivial {
		s.Nontrivial++
		h := hashOf(caseJSON)
		if _, ok := s.hashes[h]; !ok {
			s.hashes[h] = struct{}{}
			// deterministic geometric sampling of the distinct non-trivial cases: 1st, 4th, 16th, ...
			if len(s.hashes) == s.sampleAt && len(s.Samples) < 6 {
				if len(caseJSON) < 6000 {
					s.Samples = append(s.Samples, json.RawMessage(append([]byte(nil), caseJSON...)))
				}
				s.sampleAt *= 4
			}
		}
	}
}

func (s *statsT) flush() {
	out := os.Getenv("VERIF_OUT")
	if out == "" {
		return
	}
	s.mu.Lock()
	defer s.mu.Unlock()
	b, _ := json.Marshal(s)
	_ = os.WriteFile(out, b, 0o644)
	hb := make([]byte, 0, 8*len(s.hashes))
	keys := make([]uint64, 0, len(s.hashes))
	for h := range s.hashes {
		keys = append(keys, h)
	}
	sort.Slice(keys, func(i, j int) bool { return keys[i] < keys[j] })
	for _, h := range keys {
		hb = binary.LittleEndian.AppendUint64(hb, h)
	}
	_ = os.WriteFile(out+".hashes", hb, 0o644)
}

func TestMain(m *testing.M) {
	// gofasta chatters on stderr; silence it (test output goes to stdout).
	isWorker, isFuzz := false, false
	for _, a := range os.Args {
		if strings.HasPrefix(a, "-test.fuzzworker") {
			isWorker = true
		}
		if strings.HasPrefix(a, "-test.fuzz=") || a == "-test.fuzz" {
			isFuzz = true
		}
	}
	if isWorker {
		os.Unsetenv("VERIF_OUT") // workers must not clobber the coordinator's statistics
	}
	if os.Getenv("VERIF_KEEP_STDERR") == "" && (isWorker || !isFuzz) {
		if dn, err := os.OpenFile(os.DevNull, os.O_WRONLY, 0); err == nil {
			os.Stderr = dn
		}
	}
	loadKnownFindings()
	code := m.Run()
	stats.flush()
	os.Exit(code)
}

// ---------------------------------------------------------------------------------------------
// known findings

type knownFinding struct {
	Property string `json:"property"`
	Key      string `json:"key"`
	Status   string `json:"status"` // "open" or "fixed"
	What     string `json:"what"`
	Commit   string `json:"commit,omitempty"`
}

var openFindings = map[string]knownFinding{}

func loadKnownFindings() {
	p := os.Getenv("VERIF_KNOWN")
	if p == "" {
		p = filepath.Join("..", "known_findings.json")
	}
	b, err := os.ReadFile(p)
	if err != nil {
		return
	}
	var doc struct {
		Findings []knownFinding `json:"findings"`
	}
	if json.Unmarshal(b, &doc) != nil {
		return
	}
	for _, f := range doc.Findings {
		if f.Status == "open" {
			openFindings[f.Key] = f
		}
	}
}

// isOpenFinding reports whether key names an open (recorded, unrepaired) finding.
func isOpenFinding(key string) bool {
	_, ok := openFindings[key]
	return ok
}

// knownSeen records that the behaviour behind an open finding was observed on this tree.
func knownSeen(key, what string) {
	stats.mu.Lock()
	defer stats.mu.Unlock()
	if _, ok := stats.KnownSeen[key]; !ok {
		stats.KnownSeen[key] = what
	}
}

// ---------------------------------------------------------------------------------------------
// runner

func scratchDir() string {
	d := os.Getenv("VERIF_SCRATCH")
	if d == "" {
		d = filepath.Join("/dev/shm", fmt.Sprintf("verif-adhoc-%d", os.Getpid()))
	}
	_ = os.MkdirAll(d, 0o755)
	return d
}

func replayDir() string {
	d := os.Getenv("VERIF_REPLAYDIR")
	if d == "" {
		d = filepath.Join("..", "replays")
	}
	_ = os.MkdirAll(d, 0o755)
	return d
}

func tier() string {
	if t := os.Getenv("VERIF_TIER"); t != "" {
		return t
	}
	return "quick"
}
func thorough() bool { return tier() == "thorough" }

func shardTag() string {
	if s := os.Getenv("VERIF_SHARD"); s != "" {
		return s
	}
	return "0"
}

func writeReplay(id string, caseJSON []byte, msg string) string {
	p := filepath.Join(replayDir(), fmt.Sprintf("%s-%s-s%s.json", id, tier(), shardTag()))
	_ = os.WriteFile(p, caseJSON, 0o644)
	_ = os.WriteFile(p+".msg", []byte(msg+"\n"), 0o644)
	abs, err := filepath.Abs(p)
	if err == nil {
		p = abs
	}
	return p
}

func noteViolation(replay, msg string) {
	stats.mu.Lock()
	defer stats.mu.Unlock()
	if len(msg) > 2000 {
		msg = msg[:2000] + "…"
	}
	for i := range stats.Violations {
		if stats.Violations[i].Replay == replay {
			stats.Violations[i].Message = msg
			return
		}
	}
	stats.Violations = append(stats.Violations, violationT{Replay: replay, Message: msg})
}

func inflight(caseJSON []byte) {
	if p := os.Getenv("VERIF_INFLIGHT"); p != "" {
		_ = os.WriteFile(p, caseJSON, 0o644)
	}
}

// safeCheck runs check with panic capture (a panic in the calling goroutine is a violation of
// "never panics" style properties and is at least never a harness crash).
func safeCheck[C any](check func(C, *Obs) error, c C, o *Obs) (err error) {
	defer func() {
		if r := recover(); r != nil {
			buf := make([]byte, 4096)
			n := runtime.Stack(buf, false)
			err = fmt.Errorf("panic in check: %v\n%s", r, buf[:n])
		}
	}()
	return check(c, o)
}

func runProp[C any](t *testing.T, id string, gen func(*rapid.T) C, check func(C, *Obs) error) {
	stats.Property = id
	resetGlobals := func() { runtime.GOMAXPROCS(runtime.NumCPU()) }

	// 1. single replay
	if rp := os.Getenv("VERIF_REPLAY"); rp != "" {
		b, err := os.ReadFile(rp)
		if err != nil {
			t.Fatalf("cannot read replay: %v", err)
		}
		var c C
		if err := json.Unmarshal(b, &c); err != nil {
			t.Fatalf("cannot parse replay %s: %v", rp, err)
		}
		o := &Obs{}
		resetGlobals()
		err = safeCheck(check, c, o)
		stats.record(b, o)
		if err != nil {
			abs, _ := filepath.Abs(rp)
			noteViolation(abs, err.Error())
			t.Fatalf("REPLAY-FAIL %s: %v", id, err)
		}
		return
	}

	// 2. regressions (plain, no rapid)
	regs, _ := filepath.Glob(filepath.Join("regressions", id, "*.json"))
	sort.Strings(regs)
	for _, rp := range regs {
		b, err := os.ReadFile(rp)
		if err != nil {
			continue
		}
		var c C
		if err := json.Unmarshal(b, &c); err != nil {
			t.Fatalf("cannot parse regression %s: %v", rp, err)
		}
		o := &Obs{}
		resetGlobals()
		inflight(b)
		err = safeCheck(check, c, o)
		stats.record(b, o)
		stats.Regressions++
		if err != nil {
			abs, _ := filepath.Abs(rp)
			noteViolation(abs, err.Error())
			t.Errorf("REGRESSION-FAIL %s %s: %v", id, rp, err)
		}
	}
	if t.Failed() {
		return
	}
	if os.Getenv("VERIF_REGRESSIONS_ONLY") != "" {
		return
	}

	// 3. rapid search
	rapid.Check(t, func(rt *rapid.T) {
		c := gen(rt)
		b, _ := json.Marshal(c)
		inflight(b)
		o := &Obs{}
		resetGlobals()
		err := safeCheck(check, c, o)
		stats.record(b, o)
		if err != nil {
			p := writeReplay(id, b, err.Error())
			noteViolation(p, err.Error())
			rt.Fatalf("%s violated: %v", id, err)
		}
	})
}

// runEnumerated runs check over an explicit finite list of cases (no rapid).
func runEnumerated[C any](t *testing.T, id string, cases func(yield func(C) bool), check func(C, *Obs) error) int {
	n := 0
	cases(func(c C) bool {
		b, _ := json.Marshal(c)
		o := &Obs{}
		err := safeCheck(check, c, o)
		stats.record(b, o)
		n++
		if err != nil {
			p := writeReplay(id, b, err.Error())
			noteViolation(p, err.Error())
			t.Errorf("%s violated (enumerated case %d): %v", id, n, err)
			return false
		}
		return true
	})
	return n
}

// ---------------------------------------------------------------------------------------------
// helpers

// callTimeout runs f in a goroutine; reports (err, timedOut, panicValue).
func callTimeout(d time.Duration, f func() error) (err error, timedOut bool, pv any) {
	type res struct {
		err error
		pv  any
	}
	ch := make(chan res, 1)
	go func() {
		var r res
		defer func() {
			if p := recover(); p != nil {
				r.pv = p
			}
			ch <- r
		}()
		r.err = f()
	}()
	select {
	case r := <-ch:
		return r.err, false, r.pv
	case <-time.After(d):
		return nil, true, nil
	}
}

// generous: the largest generated inputs take a few seconds on an idle machine and tens of seconds when all 16 shards of a
// thorough run are busy; a call that is still running after two minutes is a hang (the call cannot be retried: it writes into
// the caller's buffer and keeps running in its goroutine)
const callDeadline = 120 * time.Second

// mustRun wraps callTimeout for calls that are expected to succeed on valid input.
func mustRun(what string, f func() error) error {
	err, to, pv := callTimeout(callDeadline, f)
	if to {
		return fmt.Errorf("%s: did not return within %v (hang)", what, callDeadline)
	}
	if pv != nil {
		return fmt.Errorf("%s: panic: %v", what, pv)
	}
	if err != nil {
		return fmt.Errorf("%s: unexpected error on valid input: %v", what, err)
	}
	return nil
}

func trunc(s string, n int) string {
	if len(s) <= n {
		return s
	}
	return s[:n] + fmt.Sprintf("…(+%d)", len(s)-n)
}

func firstDiff(a, b string) string {
	n := len(a)
	if len(b) < n {
		n = len(b)
	}
	i := 0
	for i < n && a[i] == b[i] {
		i++
	}
	lo := i - 30
	if lo < 0 {
		lo = 0
	}
	ha, hb := i+30, i+30
	if ha > len(a) {
		ha = len(a)
	}
	if hb > len(b) {
		hb = len(b)
	}
	return fmt.Sprintf("first difference at byte %d: got …%q… want …%q…", i, a[lo:ha], b[lo:hb])
}

func splitLines(s string) []string {
	s = strings.TrimSuffix(s, "\n")
	if s == "" {
		return nil
	}
	return strings.Split(s, "\n")
}

func mustJSON(v any) []byte {
	b, err := json.Marshal(v)
	if err != nil {
		panic(err)
	}
	return b
}

func getenvDefault(k, d string) string {
	if v := os.Getenv(k); v != "" {
		return v
	}
	return d
}

func (s *statsT) count(key string, n int) {
	s.mu.Lock()
	s.Counters[key] += n
	s.mu.Unlock()
}
