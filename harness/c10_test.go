package harness

// C10 — updown list is a lossless summary of each sequence relative to the reference.

import (
	"bytes"
	"fmt"
	"strconv"
	"strings"
	"testing"

	"github.com/virus-evolution/gofasta/pkg/updown"
	"pgregory.net/rapid"
)

type c10Case struct {
	Ref    FaRec   `json:"ref"`
	Recs   []FaRec `json:"recs"`
	RefLay Layout  `json:"ref_layout"`
	AlnLay Layout  `json:"aln_layout"`
	CLI    bool    `json:"cli,omitempty"`
}

// udListRow is the model's (and the parsed) view of one updown-list row.
type udListRow struct {
	ID       string
	SNPs     []string // <ref><pos><base>
	Ranges   [][2]int // 1-based inclusive
	SNPCount int
	AmbCount int
}

func udListModel(ref string, r FaRec) udListRow {
	row := udListRow{ID: r.ID}
	runStart := -1
	for i := 0; i < len(r.Seq); i++ {
		q := upper(r.Seq[i])
		if isACGT(q) {
			if runStart >= 0 {
				row.Ranges = append(row.Ranges, [2]int{runStart + 1, i})
				runStart = -1
			}
			if mustSet(q, false)&mustSet(ref[i], false) == 0 {
				row.SNPs = append(row.SNPs, string(upper(ref[i]))+strconv.Itoa(i+1)+string(q))
			}
		} else {
			row.AmbCount++
			if runStart < 0 {
				runStart = i
			}
		}
	}
	if runStart >= 0 {
		row.Ranges = append(row.Ranges, [2]int{runStart + 1, len(r.Seq)})
	}
	row.SNPCount = len(row.SNPs)
	return row
}

func (row udListRow) String() string {
	var rs []string
	for _, r := range row.Ranges {
		if r[0] == r[1] {
			rs = append(rs, strconv.Itoa(r[0]))
		} else {
			rs = append(rs, strconv.Itoa(r[0])+"-"+strconv.Itoa(r[1]))
		}
	}
	return row.ID + "," + strings.Join(row.SNPs, "|") + "," + strings.Join(rs, "|") + "," + strconv.Itoa(row.SNPCount) + "," + strconv.Itoa(row.AmbCount)
}

const udListHeader = "query,SNPs,ambiguities,SNPcount,ambcount"

func parseUDListRow(line string) (udListRow, error) {
	f := strings.Split(line, ",")
	if len(f) != 5 {
		return udListRow{}, fmt.Errorf("row %q: %d fields", line, len(f))
	}
	row := udListRow{ID: f[0]}
	if f[1] != "" {
		row.SNPs = strings.Split(f[1], "|")
	}
	if f[2] != "" {
		for _, r := range strings.Split(f[2], "|") {
			p := strings.Split(r, "-")
			a, err := strconv.Atoi(p[0])
			if err != nil {
				return row, fmt.Errorf("row %q: bad range %q", line, r)
			}
			b := a
			if len(p) == 2 {
				if b, err = strconv.Atoi(p[1]); err != nil {
					return row, fmt.Errorf("row %q: bad range %q", line, r)
				}
			} else if len(p) != 1 {
				return row, fmt.Errorf("row %q: bad range %q", line, r)
			}
			row.Ranges = append(row.Ranges, [2]int{a, b})
		}
	}
	var err error
	if row.SNPCount, err = strconv.Atoi(f[3]); err != nil {
		return row, err
	}
	if row.AmbCount, err = strconv.Atoi(f[4]); err != nil {
		return row, err
	}
	return row, nil
}

// reconstructCheck verifies the statement's reconstruction reading directly on a parsed row.
func reconstructCheck(row udListRow, ref string, seq string) error {
	L := len(seq)
	inRange := make([]bool, L+2)
	prevEnd := -1
	for _, r := range row.Ranges {
		if r[0] < 1 || r[1] > L || r[0] > r[1] {
			return fmt.Errorf("range %v outside 1..%d", r, L)
		}
		if r[0] <= prevEnd+1 && prevEnd >= 0 {
			return fmt.Errorf("ranges not maximal/ascending: %v follows end %d", r, prevEnd)
		}
		prevEnd = r[1]
		for i := r[0]; i <= r[1]; i++ {
			inRange[i] = true
		}
	}
	snpAt := map[int]byte{}
	last := 0
	for _, s := range row.SNPs {
		if len(s) < 3 {
			return fmt.Errorf("bad snp %q", s)
		}
		p, err := strconv.Atoi(s[1 : len(s)-1])
		if err != nil || p < 1 || p > L {
			return fmt.Errorf("bad snp position in %q", s)
		}
		if p <= last {
			return fmt.Errorf("snps not ascending at %q", s)
		}
		last = p
		if s[0] != upper(ref[p-1]) {
			return fmt.Errorf("snp %q: reference symbol is %q", s, ref[p-1])
		}
		snpAt[p] = s[len(s)-1]
	}
	amb := 0
	for i := 1; i <= L; i++ {
		q := upper(seq[i-1])
		switch {
		case inRange[i]:
			amb++
			if isACGT(q) {
				return fmt.Errorf("column %d is in an ambiguity range but the sequence has %q", i, q)
			}
			if _, ok := snpAt[i]; ok {
				return fmt.Errorf("column %d is both in a range and a SNP", i)
			}
		default:
			if !isACGT(q) {
				return fmt.Errorf("column %d holds %q but is not in any ambiguity range", i, q)
			}
			if a, ok := snpAt[i]; ok {
				if a != q {
					return fmt.Errorf("column %d: SNP allele %q but sequence has %q", i, a, q)
				}
				if mustSet(q, false)&mustSet(ref[i-1], false) != 0 {
					return fmt.Errorf("column %d: SNP %q listed but base is compatible with reference %q", i, q, ref[i-1])
				}
			} else if mustSet(q, false)&mustSet(ref[i-1], false) == 0 {
				return fmt.Errorf("column %d: base %q differs from reference %q but no SNP listed", i, q, ref[i-1])
			}
		}
	}
	if row.SNPCount != len(row.SNPs) {
		return fmt.Errorf("SNPcount %d but %d SNPs listed", row.SNPCount, len(row.SNPs))
	}
	if row.AmbCount != amb {
		return fmt.Errorf("ambcount %d but %d ambiguous columns", row.AmbCount, amb)
	}
	return nil
}

func checkC10(c c10Case, o *Obs) error {
	var want strings.Builder
	want.WriteString(udListHeader + "\n")
	nt := false
	for _, r := range c.Recs {
		m := udListModel(c.Ref.Seq, r)
		want.WriteString(m.String() + "\n")
		if len(m.Ranges) >= 2 && len(m.SNPs) >= 1 {
			nt = true
		}
		o.LabelIf(len(m.Ranges) > 0 && m.Ranges[0][0] == 1, "range-at-start")
		o.LabelIf(len(m.Ranges) > 0 && m.Ranges[len(m.Ranges)-1][1] == len(r.Seq), "range-at-end")
		o.LabelIf(m.AmbCount == len(r.Seq), "all-ambiguous")
		o.LabelIf(len(r.Seq) > 4096, "width>4096")
		o.LabelIf(len(r.Seq) > 10000, "width>10000")
		o.LabelIf(m.AmbCount > 10000, "record-with-more-than-10000-ambiguous-columns")
		for i := 1; i < len(m.Ranges); i++ {
			o.LabelIf(m.Ranges[i][0]-m.Ranges[i-1][1] == 2, "ranges-one-base-apart")
		}
		for _, rg := range m.Ranges {
			o.LabelIf(rg[0] == rg[1], "range-length-1")
		}
	}
	if nt {
		o.NonTrivial()
	}
	o.LabelIf(len(c.Recs) > 66, "records>66")
	o.LabelIf(len(c.Ref.Seq) >= 64 && strings.Trim(strings.ToUpper(c.Ref.Seq), "ACGT") != "", "width>=64-with-ambiguous-reference")
	for _, r := range c.Recs {
		o.LabelIf(strings.EqualFold(r.Seq, c.Ref.Seq), "record-identical-to-reference")
	}
	var out bytes.Buffer
	refTxt := renderFasta([]FaRec{c.Ref}, c.RefLay)
	alnTxt := renderFasta(c.Recs, c.AlnLay)
	if err := mustRun("updown.List", func() error {
		return updown.List(strings.NewReader(refTxt), strings.NewReader(alnTxt), &out)
	}); err != nil {
		return err
	}
	lines := splitLines(out.String())
	if len(lines) != len(c.Recs)+1 || lines[0] != udListHeader {
		return fmt.Errorf("expected header + %d rows, got %q", len(c.Recs), trunc(out.String(), 500))
	}
	for i, r := range c.Recs {
		row, err := parseUDListRow(lines[i+1])
		if err != nil {
			return err
		}
		if row.ID != r.ID {
			return fmt.Errorf("row %d is for %q, input order wants %q", i, row.ID, r.ID)
		}
		if err := reconstructCheck(row, c.Ref.Seq, r.Seq); err != nil {
			return fmt.Errorf("row %q does not reconstruct %q (ref %q): %v", lines[i+1], r.Seq, c.Ref.Seq, err)
		}
	}
	if out.String() != want.String() {
		return fmt.Errorf("updown list output differs from model\n got: %q\nwant: %q\n%s", trunc(out.String(), 600), trunc(want.String(), 600), firstDiff(out.String(), want.String()))
	}
	if c.CLI && gofastaBin() != "" {
		dir, cleanup := caseDir("c10cli")
		defer cleanup()
		args := []string{"updown", "list", "-r", writeFile(dir, "ref.fa", refTxt)}
		stdin := ""
		if len(c.Recs)%2 == 0 && len(alnTxt) < 60000 {
			stdin = alnTxt // -q defaults to stdin
		} else {
			args = append(args, "-q", writeFile(dir, "aln.fa", alnTxt))
		}
		if err := cliAgreeStdin(o, "updown list", want.String(), stdin, args...); err != nil {
			return err
		}
	}
	return nil
}

// genSegmentedSeq builds a sequence as alternating resolved / ambiguous segments derived from ref.
func genSegmentedSeq(t *rapid.T, ref string) string {
	w := len(ref)
	b := make([]byte, 0, w)
	amb := rapid.Bool().Draw(t, "startAmb")
	for len(b) < w {
		var n int
		if amb {
			n = rapid.IntRange(0, 4).Draw(t, "ambLen")
		} else {
			n = rapid.SampledFrom([]int{0, 1, 1, 2, 3, 5, 9}).Draw(t, "resLen")
		}
		for k := 0; k < n && len(b) < w; k++ {
			i := len(b)
			if amb {
				b = append(b, alpha17[4+rapid.IntRange(0, 12).Draw(t, "ambSym")])
			} else if rapid.IntRange(0, 5).Draw(t, "mut") == 0 {
				b = append(b, "ACGT"[rapid.IntRange(0, 3).Draw(t, "mutBase")])
			} else if isACGT(ref[i]) {
				b = append(b, upper(ref[i]))
			} else {
				b = append(b, "ACGT"[rapid.IntRange(0, 3).Draw(t, "base")])
			}
		}
		amb = !amb
	}
	return string(b)
}

func genUDRef(t *rapid.T, w int) string {
	b := make([]byte, w)
	for i := range b {
		if rapid.IntRange(0, 11).Draw(t, "refAmb") == 0 {
			b[i] = alpha17[4+rapid.IntRange(0, 12).Draw(t, "refAmbSym")]
		} else {
			b[i] = "ACGT"[rapid.IntRange(0, 3).Draw(t, "refBase")]
		}
	}
	return string(b)
}

// genC10Genome: a genome-sized alignment (the tool's everyday input is 29 903 columns wide) with a few records of the kinds
// real data has: near-copies of the reference, sequences that are mostly missing data (thousands of N), and a fully
// ambiguous one. Built from short drawn units so that generation stays cheap; always also run through the binary.
func genC10Genome(t *rapid.T) c10Case {
	w := rapid.SampledFrom([]int{10001, 12000, 29903}).Draw(t, "genomeWidth")
	unit := genACGT(t, 997, "genomeUnit")
	ref := []byte(strings.Repeat(unit, w/997+1)[:w])
	for k := rapid.IntRange(0, 3).Draw(t, "nRefAmb"); k > 0; k-- {
		ref[rapid.IntRange(0, w-1).Draw(t, "refAmbPos")] = rapid.SampledFrom([]byte{'N', 'R', 'Y', '-'}).Draw(t, "refAmbSym")
	}
	c := c10Case{Ref: FaRec{ID: "ref", Seq: string(ref)}}
	n := rapid.IntRange(1, 4).Draw(t, "nrec")
	for i := 0; i < n; i++ {
		b := append([]byte(nil), ref...)
		switch rapid.IntRange(0, 3).Draw(t, "genomeSeqKind") {
		case 0: // a handful of SNPs
			for e := rapid.IntRange(0, 5).Draw(t, "edits"); e > 0; e-- {
				b[rapid.IntRange(0, w-1).Draw(t, "editPos")] = "ACGT"[rapid.IntRange(0, 3).Draw(t, "editBase")]
			}
		case 1: // mostly missing: long runs of N / gaps, a few resolved islands
			sym := rapid.SampledFrom([]byte{'N', 'N', '-', '?', 'n'}).Draw(t, "missingSym")
			keepFrom := rapid.IntRange(0, w-1).Draw(t, "islandStart")
			keepLen := rapid.IntRange(0, 3000).Draw(t, "islandLen")
			for j := range b {
				if j < keepFrom || j >= keepFrom+keepLen {
					b[j] = sym
				}
			}
		case 2: // every column ambiguous, unit-periodic
			u := make([]byte, 53)
			for j := range u {
				u[j] = alpha17[4+rapid.IntRange(0, 12).Draw(t, "allAmb")]
			}
			for j := range b {
				b[j] = u[j%53]
			}
		default: // SNPs and ambiguity tracts mixed
			for e := rapid.IntRange(1, 8).Draw(t, "tracts"); e > 0; e-- {
				p := rapid.IntRange(0, w-1).Draw(t, "tractPos")
				l := rapid.IntRange(1, 6000).Draw(t, "tractLen")
				for j := p; j < p+l && j < w; j++ {
					b[j] = 'N'
				}
			}
			for e := rapid.IntRange(0, 5).Draw(t, "edits"); e > 0; e-- {
				b[rapid.IntRange(0, w-1).Draw(t, "editPos")] = "ACGT"[rapid.IntRange(0, 3).Draw(t, "editBase")]
			}
		}
		c.Recs = append(c.Recs, FaRec{ID: genID(t, i, "id"), Seq: string(b)})
	}
	c.RefLay = Layout{FinalNL: true, Width: rapid.SampledFrom([]int{0, 60, 70}).Draw(t, "refWidth")}
	c.AlnLay = Layout{FinalNL: true, Width: rapid.SampledFrom([]int{0, 0, 60}).Draw(t, "alnWidth")}
	c.CLI = true
	return c
}

func genC10(t *rapid.T) c10Case {
	if oneIn(t, "genome", 60) {
		return genC10Genome(t)
	}
	maxW := 40
	if thorough() {
		maxW = 200
	}
	w := rapid.IntRange(1, maxW).Draw(t, "width")
	sc := sizeClass(t, "c10")
	if sc == 2 {
		w = rapid.SampledFrom([]int{4095, 4096, 4097, 5000, 8193}).Draw(t, "longWidth")
	}
	medium := sc == 0 && rapid.IntRange(0, 7).Draw(t, "medium") == 0
	if medium {
		w = rapid.IntRange(64, 400).Draw(t, "mediumWidth")
	}
	var ref string
	if rapid.IntRange(0, 3).Draw(t, "refKind") == 0 {
		ref = genUDRef(t, w)
	} else {
		ref = genACGT(t, w, "refBase")
	}
	if medium {
		// sparse ambiguity in an otherwise resolved reference (as in real references with a few N or IUPAC sites)
		b := []byte(genACGT(t, w, "refBase2"))
		for k := rapid.IntRange(0, 6).Draw(t, "nSparseAmb"); k > 0; k-- {
			p := rapid.IntRange(0, w-1).Draw(t, "sparseAmbPos")
			n := rapid.IntRange(1, 3).Draw(t, "sparseAmbLen")
			for j := p; j < p+n && j < w; j++ {
				b[j] = rapid.SampledFrom([]byte{'N', 'N', 'R', 'Y', '-', '?'}).Draw(t, "sparseAmbSym")
			}
		}
		ref = string(b)
	}
	c := c10Case{Ref: FaRec{ID: "ref", Seq: randomCase(t, ref, "refCase")}}
	n := rapid.IntRange(1, 6).Draw(t, "nrec")
	if sc == 1 {
		n = rapid.IntRange(70, 140).Draw(t, "nrecMany")
	}
	for i := 0; i < n; i++ {
		var s string
		if sc == 1 && i >= 6 {
			// many records: later ones are copies of the first few (keeps generation cheap, still > any buffer size)
			c.Recs = append(c.Recs, FaRec{ID: genID(t, i, "id"), Seq: c.Recs[i%6].Seq})
			continue
		}
		switch k := rapid.IntRange(0, 9).Draw(t, "seqKind"); {
		case w >= 64 && (k == 2 || k == 3):
			// the reference with ambiguity tracts that end on, or start right after, a column that is a multiple of a block size
			// (8 .. 256) - where word-, line- or block-wise scanning changes state; everything between the tracts equals the reference
			b := []byte(strings.ToUpper(ref))
			B := rapid.SampledFrom([]int{8, 16, 32, 64, 64, 128, 256}).Draw(t, "tractGrid")
			for g := B; g <= w; g += B {
				switch rapid.IntRange(0, 3).Draw(t, "gridTract") {
				case 0: // a tract ending exactly at column g
					for j := g - rapid.IntRange(1, B).Draw(t, "tractLen"); j < g; j++ {
						b[j] = 'N'
					}
				case 1: // a tract starting at column g+1
					for j := g; j < g+rapid.IntRange(1, 5).Draw(t, "tractLen2") && j < w; j++ {
						b[j] = rapid.SampledFrom([]byte{'N', 'N', '-', 'R'}).Draw(t, "tractSym")
					}
				case 2: // both
					b[g-1] = 'N'
					if g < w {
						b[g] = 'N'
					}
				}
			}
			s = string(b)
		case k >= 7 || (medium && k >= 3):
			// identical to the reference (its ambiguity symbols included), or a handful of SNPs away from it
			b := []byte(strings.ToUpper(ref))
			for e := rapid.IntRange(0, 3).Draw(t, "nearRefEdits"); e > 0; e-- {
				b[rapid.IntRange(0, w-1).Draw(t, "nearRefPos")] = "ACGT"[rapid.IntRange(0, 3).Draw(t, "nearRefBase")]
			}
			s = string(b)
		case k == 0:
			s = genAlnSeq(t, w, "sym")
		case k == 1:
			b := make([]byte, w)
			for j := range b {
				b[j] = alpha17[4+rapid.IntRange(0, 12).Draw(t, "allAmb")]
			}
			s = string(b)
		default:
			s = genSegmentedSeq(t, ref)
		}
		c.Recs = append(c.Recs, FaRec{ID: genID(t, i, "id"), Desc: genDesc(t, "desc"), Seq: randomCase(t, s, "case")})
	}
	c.RefLay = genLayout(t, w)
	c.AlnLay = genLayout(t, w)
	c.CLI = rapid.IntRange(0, 29).Draw(t, "cli") == 0
	return c
}

func TestC10(t *testing.T) { runProp(t, "C10", genC10, checkC10) }
