package harness

// C15 — windowing, padding, wrapping and input-channel options only select or re-lay-out.

import (
	"bytes"
	"fmt"
	"os"
	"path/filepath"
	"strconv"
	"strings"
	"testing"
	"time"

	"github.com/virus-evolution/gofasta/pkg/sam"
	"pgregory.net/rapid"
)

type c15Case struct {
	Kind      string    `json:"kind"` // toma-window | topa-window | wrap | variants-window | legacy-flags | stdin
	Sam       *SamInput `json:"sam,omitempty"`
	Var       *varCase  `json:"var,omitempty"`
	Pad       bool      `json:"pad"`
	Start     int       `json:"start"`
	End       int       `json:"end"`
	Wrap      int       `json:"wrap"`
	Threads   int       `json:"threads"`
	AppendSNP bool      `json:"append_snps"`
	SkipIns   bool      `json:"skip_insertions"`
}

func parseFastaOut(s string) (names []string, seqs []string, lineLens [][]int) {
	for _, l := range splitLines(s) {
		if strings.HasPrefix(l, ">") {
			names = append(names, l[1:])
			seqs = append(seqs, "")
			lineLens = append(lineLens, nil)
			continue
		}
		if len(seqs) == 0 {
			continue
		}
		seqs[len(seqs)-1] += l
		lineLens[len(lineLens)-1] = append(lineLens[len(lineLens)-1], len(l))
	}
	return
}

func runToma(in SamInput, wrap, start, end int, pad bool, threads int) (string, error) {
	var out bytes.Buffer
	txt := in.render()
	err := mustRun("sam.ToMultiAlign", func() error {
		return sam.ToMultiAlign(strings.NewReader(txt), &out, wrap, start, end, pad, threads)
	})
	return out.String(), err
}

func runTopaDir(in SamInput, wrap, start, end int, skipIns bool, threads int) (map[string]string, error) {
	dir, cleanup := caseDir("c15topa")
	defer cleanup()
	txt, ref := in.render(), in.refFasta()
	if err := mustRun("sam.ToPairAlign", func() error {
		return sam.ToPairAlign(strings.NewReader(txt), strings.NewReader(ref), filepath.Join(dir, "o"), wrap, start, end, false, skipIns, threads)
	}); err != nil {
		return nil, err
	}
	files := map[string]string{}
	ents, _ := os.ReadDir(filepath.Join(dir, "o"))
	for _, e := range ents {
		b, _ := os.ReadFile(filepath.Join(dir, "o", e.Name()))
		files[e.Name()] = string(b)
	}
	return files, nil
}

func windowsToTry(L, s, e int) [][2]int {
	if L <= 12 {
		var w [][2]int
		for a := 1; a <= L; a++ {
			w = append(w, [2]int{a, -1}, [2]int{-1, a})
			for b := a; b <= L; b++ {
				w = append(w, [2]int{a, b})
			}
		}
		return w
	}
	return [][2]int{{s, e}}
}

func checkC15(c c15Case, o *Obs) error {
	o.Label("kind:" + c.Kind)
	switch c.Kind {
	case "toma-window":
		L := len(c.Sam.Ref)
		full, err := runToma(*c.Sam, -1, -1, -1, c.Pad, 1)
		if err != nil {
			return err
		}
		fn, fs, _ := parseFastaOut(full)
		wins := windowsToTry(L, c.Start, c.End)
		o.LabelIf(L <= 12, "all-windows-enumerated")
		o.LabelIf(c.Pad, "pad")
		for _, w := range wins {
			got, err := runToma(*c.Sam, -1, w[0], w[1], c.Pad, c.Threads)
			if err != nil {
				return err
			}
			gn, gs, _ := parseFastaOut(got)
			if strings.Join(gn, ",") != strings.Join(fn, ",") {
				return fmt.Errorf("toMultiAlign --start %d --end %d: records %v, untrimmed run has %v", w[0], w[1], gn, fn)
			}
			for i := range fs {
				want := windowRow(fs[i], w[0], w[1], c.Pad)
				if gs[i] != want {
					return fmt.Errorf("toMultiAlign --start %d --end %d pad=%v: record %s is %q; columns of the untrimmed output give %q (untrimmed %q)\nSAM:\n%s", w[0], w[1], c.Pad, fn[i], gs[i], want, fs[i], trunc(c.Sam.render(), 1200))
				}
			}
			s, e := w[0], w[1]
			if s > 1 && e > 0 && e < L {
				o.NonTrivial()
			}
		}
	case "topa-window":
		L := len(c.Sam.Ref)
		full, err := runTopaDir(*c.Sam, -1, -1, -1, c.SkipIns, 1)
		if err != nil {
			return err
		}
		wins := windowsToTry(L, c.Start, c.End)
		if L <= 12 && len(wins) > 40 {
			// directory output is slower: every third window plus the drawn one
			var w2 [][2]int
			for i, w := range wins {
				if i%3 == 0 {
					w2 = append(w2, w)
				}
			}
			wins = append(w2, [2]int{c.Start, c.End})
		}
		o.LabelIf(c.SkipIns, "skip-insertions")
		for _, w := range wins {
			got, err := runTopaDir(*c.Sam, -1, w[0], w[1], c.SkipIns, c.Threads)
			if err != nil {
				return err
			}
			if len(got) != len(full) {
				return fmt.Errorf("toPairAlign window %v wrote %d files, untrimmed %d", w, len(got), len(full))
			}
			s, e := w[0], w[1]
			if s < 0 {
				s = 1
			}
			if e < 0 {
				e = L
			}
			for name, ftxt := range full {
				_, fseqs, _ := parseFastaOut(ftxt)
				_, gseqs, _ := parseFastaOut(got[name])
				if len(fseqs) != 2 || len(gseqs) != 2 {
					return fmt.Errorf("pair file %s malformed", name)
				}
				// column of reference base s and of base e in the untrimmed pair
				cs, ce, seen := -1, -1, 0
				for i := 0; i < len(fseqs[0]); i++ {
					if fseqs[0][i] != '-' {
						seen++
						if seen == s {
							cs = i
						}
						if seen == e {
							ce = i
						}
					}
				}
				if cs < 0 || ce < 0 {
					return fmt.Errorf("untrimmed reference row of %s has only %d bases", name, seen)
				}
				if gseqs[0] != fseqs[0][cs:ce+1] || gseqs[1] != fseqs[1][cs:ce+1] {
					return fmt.Errorf("toPairAlign --start %d --end %d, %s: got\n %q\n %q\nuntrimmed pair cut from base %d to base %d is\n %q\n %q\nSAM:\n%s", w[0], w[1], name, gseqs[0], gseqs[1], s, e, fseqs[0][cs:ce+1], fseqs[1][cs:ce+1], trunc(c.Sam.render(), 1200))
				}
				if strings.Contains(fseqs[0], "-") && s > 1 && e < L {
					o.NonTrivial()
				}
			}
		}
	case "wrap":
		base, err := runToma(*c.Sam, -1, c.Start, c.End, c.Pad, 1)
		if err != nil {
			return err
		}
		bn, bs, _ := parseFastaOut(base)
		got, err := runToma(*c.Sam, c.Wrap, c.Start, c.End, c.Pad, c.Threads)
		if err != nil {
			return err
		}
		checkWrap := func(what, gotTxt string, bn, bs []string) error {
			gn, gs, ll := parseFastaOut(gotTxt)
			if strings.Join(gn, ",") != strings.Join(bn, ",") {
				return fmt.Errorf("%s --wrap %d: records %v vs %v", what, c.Wrap, gn, bn)
			}
			for i := range bs {
				if gs[i] != bs[i] {
					return fmt.Errorf("%s --wrap %d changes the sequence of %s: %q vs %q", what, c.Wrap, bn[i], gs[i], bs[i])
				}
				for j, n := range ll[i] {
					last := j == len(ll[i])-1
					if (!last && n != c.Wrap) || (last && (n < 1 || n > c.Wrap)) {
						return fmt.Errorf("%s --wrap %d: record %s has line lengths %v", what, c.Wrap, bn[i], ll[i])
					}
				}
			}
			return nil
		}
		if err := checkWrap("toMultiAlign", got, bn, bs); err != nil {
			return err
		}
		// toPairAlign --wrap
		pf, err := runTopaDir(*c.Sam, -1, c.Start, c.End, c.SkipIns, 1)
		if err != nil {
			return err
		}
		pw, err := runTopaDir(*c.Sam, c.Wrap, c.Start, c.End, c.SkipIns, c.Threads)
		if err != nil {
			return err
		}
		for name, ftxt := range pf {
			fn, fs, _ := parseFastaOut(ftxt)
			if err := checkWrap("toPairAlign("+name+")", pw[name], fn, fs); err != nil {
				return err
			}
		}
		if len(bs) > 0 && c.Wrap < len(bs[0]) {
			o.NonTrivial()
		}
	case "variants-window":
		vc := *c.Var
		o.Label("form:" + vc.Form)
		fullOut, err := runVariants(vc, varRunOpts{Start: -1, End: -1, AppendSNP: c.AppendSNP})
		if err != nil {
			return fmt.Errorf("%v\n%s", err, vc.describe())
		}
		order, full, err := parseVariantsOutput(fullOut)
		if err != nil {
			return err
		}
		ea := vc.effectiveAnno()
		L := len(vc.Anno.Ref)
		for _, w := range windowsToTry(L, c.Start, c.End) {
			got, err := runVariants(vc, varRunOpts{Start: w[0], End: w[1], AppendSNP: c.AppendSNP})
			if err != nil {
				return err
			}
			o2, rows, err := parseVariantsOutput(got)
			if err != nil {
				return err
			}
			if strings.Join(o2, ",") != strings.Join(order, ",") {
				return fmt.Errorf("window changes the rows: %v vs %v", o2, order)
			}
			if vc.CLI && gofastaBin() != "" && w[0] == c.Start && w[1] == c.End {
				// the same window through the command line (flag defaults, validation and plumbing in cmd/)
				dir, cleanup := caseDir("c15var")
				what := "variants"
				if vc.Form == "sam" {
					what = "sam variants"
				}
				err := cliAgree(o, what, got, vc.cliArgs(dir, varRunOpts{Start: w[0], End: w[1], AppendSNP: c.AppendSNP})...)
				cleanup()
				if err != nil {
					return err
				}
				o.LabelIf(w[0] > 0 && w[1] < 0, "cli:start-alone")
				o.LabelIf(w[0] < 0 && w[1] > 0, "cli:end-alone")
				o.LabelIf(w[0] > 0 && w[1] > 0, "cli:both-bounds")
			}
			o.LabelIf(w[0] > 0 && w[1] < 0, "start-alone")
			o.LabelIf(w[0] < 0 && w[1] > 0, "end-alone")
			o.LabelIf(w[0] > 0 && w[1] > 0, "both-bounds")
			for _, n := range order {
				// expected: the unrestricted row filtered by s <= p <= e
				var must, may []string
				for _, m := range full[n] {
					lo, hi, err := mutInterval(m, ea)
					if err != nil {
						return err
					}
					if strings.HasPrefix(m, "aa:") {
						if hi-lo == 2 {
							// contiguous codon: its documented position is its first base (highest coordinate on the reverse strand)
							p := lo
							f := strings.Split(m, ":")
							for _, ft := range ea.Feats {
								if ft.Name == f[1] && ft.Strand < 0 {
									p = hi
								}
							}
							lo, hi = p, p
						} else {
							lo, hi = lo-2, hi+2 // codon spanning a join: position not pinned by the statement
						}
					}
					in := func(p int) bool { return (w[0] < 0 || p >= w[0]) && (w[1] < 0 || p <= w[1]) }
					switch {
					case in(lo) && in(hi) && (lo == hi || (w[0] < 0 || lo >= w[0]) && (w[1] < 0 || hi <= w[1])):
						must = append(must, m)
					case !in(lo) && !in(hi) && (hi < w[0] && w[0] > 0 || lo > w[1] && w[1] > 0):
					default:
						may = append(may, m)
					}
				}
				// got row must be: all of must, possibly some of may, nothing else, same relative order
				gi := 0
				g := rows[n]
				for _, m := range full[n] {
					isMust, isMay := contains(must, m), contains(may, m)
					if gi < len(g) && g[gi] == m && (isMust || isMay) {
						gi++
						continue
					}
					if isMust {
						return fmt.Errorf("query %s, --start %d --end %d: %s lies inside the window but is missing\n windowed:     %v\n unrestricted: %v\n%s", n, w[0], w[1], m, g, full[n], vc.describe())
					}
				}
				if gi != len(g) {
					return fmt.Errorf("query %s, --start %d --end %d: %s is reported but lies outside the window (or is not in the unrestricted row)\n windowed:     %v\n unrestricted: %v\n%s", n, w[0], w[1], g[gi], g, full[n], vc.describe())
				}
				if len(must) > 0 && len(must)+len(may) < len(full[n]) {
					o.NonTrivial()
				}
			}
		}
	case "legacy-flags":
		if gofastaBin() == "" {
			return nil
		}
		dir, cleanup := caseDir("c15legacy")
		defer cleanup()
		sf := writeFile(dir, "in.sam", c.Sam.render())
		a, b := c.Start-1, c.End // --trimstart a (0-based, half open) == --start a+1 ; --trimend b == --end b
		argsNew := []string{"sam", "toMultiAlign", "-s", sf, "--start", strconv.Itoa(c.Start), "--end", strconv.Itoa(c.End), "-t", strconv.Itoa(c.Threads)}
		argsOld := []string{"sam", "toMultiAlign", "-s", sf, "--trim", "--trimstart", strconv.Itoa(a), "--trimend", strconv.Itoa(b), "-t", strconv.Itoa(c.Threads)}
		if c.Pad {
			argsNew = append(argsNew, "--pad")
			argsOld = append(argsOld, "--pad")
		}
		r1 := runBin(30*time.Second, "", nil, argsNew...)
		r2 := runBin(30*time.Second, "", nil, argsOld...)
		if r1.TimedOut || r2.TimedOut {
			return fmt.Errorf("toMultiAlign timed out")
		}
		if r1.Exit != 0 || r2.Exit != 0 {
			return fmt.Errorf("toMultiAlign failed on valid input: new flags exit %d (%s), legacy flags exit %d (%s)", r1.Exit, trunc(r1.Stderr, 200), r2.Exit, trunc(r2.Stderr, 200))
		}
		if r1.Stdout != r2.Stdout {
			return fmt.Errorf("--trim --trimstart %d --trimend %d differs from --start %d --end %d:\n legacy: %q\n new:    %q", a, b, c.Start, c.End, trunc(r2.Stdout, 400), trunc(r1.Stdout, 400))
		}
		// --wrap through the command line, combined with the window and --pad: only re-breaks the lines
		if c.Wrap > 0 {
			rw := runBin(30*time.Second, "", nil, append(append([]string{}, argsNew...), "-w", strconv.Itoa(c.Wrap))...)
			if rw.TimedOut || rw.Exit != 0 {
				return fmt.Errorf("toMultiAlign --wrap %d failed on valid input: exit %d %s", c.Wrap, rw.Exit, trunc(rw.Stderr, 200))
			}
			wn, ws, wl := parseFastaOut(rw.Stdout)
			bn, bs, _ := parseFastaOut(r1.Stdout)
			if strings.Join(wn, ",") != strings.Join(bn, ",") {
				return fmt.Errorf("--wrap %d changes the records: %v vs %v", c.Wrap, wn, bn)
			}
			for i := range bs {
				if ws[i] != bs[i] {
					return fmt.Errorf("--wrap %d (pad=%v --start %d --end %d) changes the sequence of %s", c.Wrap, c.Pad, c.Start, c.End, bn[i])
				}
				for j, n := range wl[i] {
					last := j == len(wl[i])-1
					if (!last && n != c.Wrap) || (last && (n < 1 || n > c.Wrap)) {
						return fmt.Errorf("gofasta sam toMultiAlign --wrap %d (pad=%v --start %d --end %d): record %s has line lengths %v", c.Wrap, c.Pad, c.Start, c.End, bn[i], wl[i])
					}
				}
			}
			o.Label("wrap-at-process-level")
		}
		// and the new flags at process level equal the in-process model of the same window
		want, err := runToma(*c.Sam, -1, c.Start, c.End, c.Pad, 1)
		if err != nil {
			return err
		}
		if r1.Stdout != want {
			return fmt.Errorf("binary and library disagree for --start %d --end %d", c.Start, c.End)
		}
		o.NonTrivial()
	case "stdin":
		if gofastaBin() == "" {
			return nil
		}
		vc := *c.Var
		dir, cleanup := caseDir("c15stdin")
		defer cleanup()
		ext := ".gb"
		if vc.Format == "gff" {
			ext = ".gff"
		}
		af := writeFile(dir, "anno"+ext, vc.annoText())
		msa := vc.Msa.render()
		mf := writeFile(dir, "aln.fasta", msa)
		args := []string{"variants", "-a", af, "--reference", vc.Msa.RefID, "-t", strconv.Itoa(c.Threads)}
		if c.AppendSNP {
			args = append(args, "--append-snps")
		}
		r1 := runBin(30*time.Second, "", nil, append(args, "--msa", mf)...)
		r2 := runBin(30*time.Second, msa, nil, args...) // --msa defaults to stdin
		// the stdin path has its own channel plumbing: repeat it, a schedule-dependent failure must not hide
		for rep := 0; rep < 4 && !r2.TimedOut && r2.Exit == 0 && r2.Stdout == r1.Stdout; rep++ {
			r2 = runBin(30*time.Second, msa, nil, args...)
		}
		if r1.TimedOut || r2.TimedOut {
			return fmt.Errorf("variants timed out (file %v, stdin %v)", r1.TimedOut, r2.TimedOut)
		}
		if r1.Exit != 0 || r2.Exit != 0 {
			return fmt.Errorf("variants failed on valid input: file exit %d (%s), stdin exit %d (%s)\n%s", r1.Exit, trunc(r1.Stderr, 200), r2.Exit, trunc(r2.Stderr, 200), vc.describe())
		}
		if r1.Stdout != r2.Stdout {
			return fmt.Errorf("variants reading the alignment from stdin differs from reading the same file:\n file:  %q\n stdin: %q\n%s", trunc(r1.Stdout, 500), trunc(r2.Stdout, 500), vc.describe())
		}
		if len(vc.Msa.Rows) > 2 {
			o.NonTrivial()
		}
	default:
		return fmt.Errorf("unknown kind %q", c.Kind)
	}
	return nil
}

func contains(xs []string, s string) bool {
	for _, x := range xs {
		if x == s {
			return true
		}
	}
	return false
}

func genC15(t *rapid.T) c15Case {
	kinds := []string{"toma-window", "toma-window", "topa-window", "wrap", "variants-window", "variants-window"}
	if gofastaBin() != "" {
		kinds = append(kinds, "legacy-flags", "stdin")
	}
	c := c15Case{Kind: rapid.SampledFrom(kinds).Draw(t, "kind")}
	c.Threads = rapid.SampledFrom([]int{1, 1, 2, 4}).Draw(t, "threads")
	c.Pad = rapid.Bool().Draw(t, "pad")
	c.SkipIns = rapid.IntRange(0, 3).Draw(t, "skipIns") == 0
	c.AppendSNP = rapid.Bool().Draw(t, "appendSNP")
	switch c.Kind {
	case "toma-window", "topa-window", "wrap", "legacy-flags":
		so := samGenOpts{maxRef: 40, maxQueries: 3, maxRecs: 3, allowConflict: c.Kind == "toma-window", allowNoise: true, iupacRef: true}
		if rapid.IntRange(0, 2).Draw(t, "smallRef") == 0 {
			so.maxRef = 12
		}
		in := genSamInput(t, so)
		c.Sam = &in
		L := len(in.Ref)
		c.Start = rapid.IntRange(1, L).Draw(t, "start")
		c.End = rapid.IntRange(c.Start, L).Draw(t, "end")
		if c.Kind != "legacy-flags" {
			switch rapid.IntRange(0, 3).Draw(t, "boundKind") {
			case 0:
				c.End = -1
			case 1:
				c.Start = -1
			}
		}
		c.Wrap = rapid.IntRange(1, L+3).Draw(t, "wrap")
	default:
		vc := genVarCase(t, "aa")
		if c.Kind == "stdin" {
			// stdin needs the reference in the alignment, first
			for vc.Form != "msa" || vc.Msa.RefAt < 0 {
				vc.Form = "msa"
				m := genMSA(t, vc.Anno, 4, true)
				vc.Msa = &m
				vc.Sam = nil
			}
			if vc.Msa.RefAt != 0 {
				r := vc.Msa.Rows[vc.Msa.RefAt]
				rows := append([]FaRec{r}, append(append([]FaRec{}, vc.Msa.Rows[:vc.Msa.RefAt]...), vc.Msa.Rows[vc.Msa.RefAt+1:]...)...)
				vc.Msa.Rows, vc.Msa.RefAt = rows, 0
			}
		}
		c.Var = &vc
		L := len(vc.Anno.Ref)
		c.Start = rapid.IntRange(1, L).Draw(t, "start")
		c.End = rapid.IntRange(c.Start, L).Draw(t, "end")
		switch rapid.IntRange(0, 3).Draw(t, "boundKind") {
		case 0:
			c.End = -1
		case 1:
			c.Start = -1
		}
	}
	return c
}

func TestC15(t *testing.T) { runProp(t, "C15", genC15, checkC15) }
