module verif/harness

go 1.23

require (
	github.com/virus-evolution/gofasta v0.0.0
	pgregory.net/rapid v1.3.0
)

require (
	github.com/biogo/hts v1.2.1 // indirect
	golang.org/x/exp v0.0.0-20230116083435-1de6713980de // indirect
)

replace github.com/virus-evolution/gofasta => /repo
