module verif/harness

go 1.23

require (
	github.com/virus-evolution/gofasta v0.0.0
	pgregory.net/rapid v1.3.0
)

replace github.com/virus-evolution/gofasta => /repo
