package harness

// Reference definitions of the three distances of `gofasta closest`, written from the statement of
// C07 and from Tamura & Nei (1993) eq. 7 — on plain strings and base sets, not on gofasta's bit codes.

import (
	"math"
	"strconv"
)

type pairCounts struct {
	snp      int // columns with disjoint base sets
	same     int // columns where both carry the same single base
	L        int // columns where both are A/C/G/T
	P1       int // A<->G among those
	P2       int // C<->T among those
	Q        int // transversions among those
	tA, tC   int // target A/C/G/T counts over the whole target
	tG, tT   int
	snpsList []string // <pos><q><t>
}

func countPair(q, t string) pairCounts {
	var pc pairCounts
	for i := 0; i < len(t); i++ {
		a, b := upper(q[i]), upper(t[i])
		if disjoint(a, b, false) {
			pc.snp++
			pc.snpsList = append(pc.snpsList, strconv.Itoa(i+1)+string(a)+string(b))
		}
		if isACGT(a) && a == b {
			pc.same++
		}
		if isACGT(a) && isACGT(b) {
			pc.L++
			if a != b {
				x, y := a, b
				if x > y {
					x, y = y, x
				}
				switch {
				case x == 'A' && y == 'G':
					pc.P1++
				case x == 'C' && y == 'T':
					pc.P2++
				default:
					pc.Q++
				}
			}
		}
		switch b {
		case 'A':
			pc.tA++
		case 'C':
			pc.tC++
		case 'G':
			pc.tG++
		case 'T':
			pc.tT++
		}
	}
	return pc
}

func (pc pairCounts) snpDist() float64 { return float64(pc.snp) }

// raw: one correctly rounded division of two integers; undefined (NaN) when 0/0.
func (pc pairCounts) rawDist() (float64, bool) {
	d := pc.snp + pc.same
	if d == 0 {
		return math.NaN(), false
	}
	return float64(pc.snp) / float64(d), true
}

// tn93: eq. 7 of Tamura & Nei 1993; defined iff all frequencies are positive, L>0 and the three
// logarithm arguments are positive. margin reports the smallest log argument.
func (pc pairCounts) tn93Dist() (d float64, defined bool, margin float64) {
	n := float64(pc.tA + pc.tC + pc.tG + pc.tT)
	if n == 0 || pc.L == 0 || pc.tA == 0 || pc.tC == 0 || pc.tG == 0 || pc.tT == 0 {
		return math.NaN(), false, math.NaN()
	}
	gA, gC, gG, gT := float64(pc.tA)/n, float64(pc.tC)/n, float64(pc.tG)/n, float64(pc.tT)/n
	gR, gY := gA+gG, gC+gT
	L := float64(pc.L)
	P1, P2, Q := float64(pc.P1)/L, float64(pc.P2)/L, float64(pc.Q)/L
	a1 := 1 - gR/(2*gA*gG)*P1 - Q/(2*gR)
	a2 := 1 - gY/(2*gT*gC)*P2 - Q/(2*gY)
	a3 := 1 - Q/(2*gR*gY)
	margin = math.Min(a1, math.Min(a2, a3))
	if !(margin > 0) {
		return math.NaN(), false, margin
	}
	d = -2*gA*gG/gR*math.Log(a1) - 2*gT*gC/gY*math.Log(a2) - 2*(gR*gY-gA*gG*gY/gR-gT*gC*gR/gY)*math.Log(a3)
	if d == 0 {
		d = 0 // -0 -> +0
	}
	return d, true, margin
}
