//go:build !verif

package harness

func slowRecord(idx int, us uint64) {}
