package harness

// Native coverage-guided fuzzing of the generated-case properties (thorough tier only): the fuzzer mutates the byte stream rapid
// draws from (rapid.MakeFuzz), so the same generators and oracles are searched under coverage guidance of the gofasta packages
// instead of rapid's own distribution. Process-level arms are off (no VERIF_BIN in the fuzz environment). A failing input is saved
// as a replay JSON of the *case* (the reproducible unit), exactly as for the rapid shards.

import (
	"crypto/sha256"
	"encoding/binary"
	"testing"

	"pgregory.net/rapid"
)

func fuzzProp[C any](f *testing.F, id string, gen func(*rapid.T) C, check func(C, *Obs) error) {
	// starting corpus: the empty stream (rapid's simplest case) and fixed pseudo-random streams long enough for a few hundred to a
	// few thousand draws (8 bytes each) - grown from nothing the mutator hardly ever reaches a case with more than a handful of symbols
	f.Add([]byte{})
	for k, n := range []int{256, 1024, 1024, 4096, 4096, 16384, 16384, 65536} {
		f.Add(fixedStream(id, k, n))
	}
	f.Fuzz(rapid.MakeFuzz(func(t *rapid.T) {
		c := gen(t)
		o := &Obs{}
		if err := safeCheck(check, c, o); err != nil {
			p := writeReplay(id+"-fuzz", mustJSON(c), err.Error())
			t.Fatalf("%s violated: %v (replay %s)", id, err, p)
		}
	}))
}

func FuzzC01(f *testing.F) { fuzzProp(f, "C01", genC01, checkC01) }
func FuzzC02(f *testing.F) { fuzzProp(f, "C02", genC02, checkC02) }
func FuzzC03(f *testing.F) { c03Chromosome = true; fuzzProp(f, "C03", genC03, checkC03) }
func FuzzC04(f *testing.F) { fuzzProp(f, "C04", genC04, checkC04) }
func FuzzC06(f *testing.F) { fuzzProp(f, "C06", genC06, checkC06) }
func FuzzC07(f *testing.F) { fuzzProp(f, "C07", genC07, checkC07) }
func FuzzC08(f *testing.F) { fuzzProp(f, "C08", genC08, checkC08) }
func FuzzC10(f *testing.F) { fuzzProp(f, "C10", genC10, checkC10) }
func FuzzC14(f *testing.F) { fuzzProp(f, "C14", genC14, checkC14) }

// fixedStream: n bytes of SHA-256 in counter mode keyed by the property id and k; a constant of the harness, not a random source.
func fixedStream(id string, k, n int) []byte {
	out := make([]byte, 0, n+32)
	var ctr [8]byte
	for i := 0; len(out) < n; i++ {
		binary.LittleEndian.PutUint64(ctr[:], uint64(i)<<8|uint64(k))
		h := sha256.Sum256(append([]byte(id), ctr[:]...))
		out = append(out, h[:]...)
	}
	return out[:n]
}
