package harness

// C01 — sam toMultiAlign projects every query onto reference coordinates exactly.

import (
	"bytes"
	"fmt"
	"strconv"
	"strings"
	"testing"

	"github.com/virus-evolution/gofasta/pkg/sam"
	"pgregory.net/rapid"
)

type c01Case struct {
	In      SamInput `json:"sam"`
	Pad     bool     `json:"pad"`
	Start   int      `json:"start"` // -1 = not given
	End     int      `json:"end"`
	Wrap    int      `json:"wrap"` // <=0 = off
	Threads int      `json:"threads"`
	CLI     bool     `json:"cli,omitempty"` // also run the binary with the equivalent command line
}

func c01Expected(c c01Case) string {
	var sb strings.Builder
	L := len(c.In.Ref)
	names, groups := c.In.groups()
	for _, name := range names {
		q := projectQuery(groups[name], L)
		row := windowRow(q.multiAlignRow(c.Pad), c.Start, c.End, c.Pad)
		sb.WriteString(">" + name + "\n" + wrapText(row, c.Wrap))
	}
	return sb.String()
}

func checkC01(c c01Case, o *Obs) error {
	want := c01Expected(c)
	labelSam(c.In, o)
	o.LabelIf(c.Pad, "pad")
	o.LabelIf(c.Start > 0 || c.End > 0, "window")
	o.LabelIf(c.Wrap > 0, "wrap")
	o.LabelIf(c.Threads > 1, "threads>1")
	o.LabelIf(c.Wrap > 65535, "wrap>65535")
	o.LabelIf(len(c.In.Ref) >= 1<<20, "sam-line>=1MiB")
	nt := false
	for _, r := range c.In.Recs {
		if r.Kind != "aligned" {
			nt = true
			continue
		}
		for _, op := range r.Ops {
			if strings.Contains("IDNSHP", op.Op) {
				nt = true
			}
		}
	}
	L := len(c.In.Ref)
	gnames, gm := c.In.groups()
	for _, n := range gnames {
		rs := gm[n]
		if len(rs) > 1 {
			nt = true
			o.LabelIf(projectQuery(rs, L).conflict, "conflicting-bases")
		}
	}
	if nt {
		o.NonTrivial()
	}
	var out bytes.Buffer
	samTxt := c.In.render()
	if err := mustRun("sam.ToMultiAlign", func() error {
		return sam.ToMultiAlign(strings.NewReader(samTxt), &out, c.Wrap, c.Start, c.End, c.Pad, c.Threads)
	}); err != nil {
		return err
	}
	if out.String() != want {
		return fmt.Errorf("toMultiAlign output differs from the alignment model (pad=%v start=%d end=%d wrap=%d threads=%d)\n got: %q\nwant: %q\n%s\nSAM:\n%s",
			c.Pad, c.Start, c.End, c.Wrap, c.Threads, trunc(out.String(), 700), trunc(want, 700), firstDiff(out.String(), want), trunc(samTxt, 1500))
	}
	if c.CLI && gofastaBin() != "" {
		dir, cleanup := caseDir("c01cli")
		defer cleanup()
		args := []string{"sam", "toMultiAlign", "-t", strconv.Itoa(c.Threads)}
		stdin := ""
		if c.Threads%2 == 1 && len(samTxt) < 60000 {
			stdin = samTxt // the documented pipeline: minimap2 ... | gofasta sam toMultiAlign
		} else {
			args = append(args, "-s", writeFile(dir, "in.sam", samTxt))
		}
		if c.Pad {
			args = append(args, "--pad")
		}
		if c.Start > 0 {
			args = append(args, "--start", strconv.Itoa(c.Start))
		}
		if c.End > 0 {
			args = append(args, "--end", strconv.Itoa(c.End))
		}
		if c.Wrap > 0 {
			args = append(args, "-w", strconv.Itoa(c.Wrap))
		}
		if err := cliAgreeStdin(o, "sam toMultiAlign", want, stdin, args...); err != nil {
			return err
		}
	}
	return nil
}

func genWindow(t *rapid.T, L int) (start, end int) {
	start, end = -1, -1
	switch rapid.IntRange(0, 5).Draw(t, "windowKind") {
	case 0, 1, 2:
	case 3:
		start = rapid.IntRange(1, L).Draw(t, "start")
	case 4:
		end = rapid.IntRange(1, L).Draw(t, "end")
	default:
		start = rapid.IntRange(1, L).Draw(t, "start")
		end = rapid.IntRange(start, L).Draw(t, "end")
	}
	return
}

func genWrap(t *rapid.T, L int) int {
	if rapid.IntRange(0, 2).Draw(t, "wrapOn") == 0 {
		return rapid.IntRange(1, L+3).Draw(t, "wrap")
	}
	return rapid.SampledFrom([]int{-1, -1, 0}).Draw(t, "wrapOff")
}

func samOptsFor(conflict bool) samGenOpts {
	o := samGenOpts{maxRef: 60, maxQueries: 5, maxRecs: 3, allowConflict: conflict, allowNoise: true, iupacRef: true, hugeEvery: 150, manyEvery: 700}
	if thorough() {
		o.maxRef, o.maxQueries, o.maxRecs = 400, 6, 5
	}
	return o
}

// genC01Megabase: a record whose SAM line is longer than 1 MiB (a bacterial-size contig, or any genome beyond ~1.05 Mb), between
// two short records; a small window keeps the output small in half of the cases.
func genC01Megabase(t *rapid.T) c01Case {
	n := rapid.SampledFrom([]int{1048570, 1048576, 1100000}).Draw(t, "megaLen")
	unit := genACGT(t, 997, "megaUnit")
	ref := strings.Repeat(unit, n/997+1)[:n]
	in := SamInput{RefName: "contig", Ref: ref}
	short := func(name string, pos, l int) SamRec {
		return SamRec{Name: name, Flag: 0, Pos: pos, Ops: []SamOp{{"M", l}}, Seq: ref[pos-1 : pos-1+l], Kind: "aligned"}
	}
	skip := rapid.IntRange(0, 50).Draw(t, "megaStart")
	long := SamRec{Name: "long", Flag: 0, Pos: 1 + skip, Ops: []SamOp{{"M", n - skip}}, Seq: ref[skip:], Kind: "aligned"}
	in.Recs = []SamRec{short("short1", 1, 8), long, short("short2", 5, 4)}
	if rapid.Bool().Draw(t, "longFirst") {
		in.Recs = []SamRec{long, short("short1", 1, 8), short("short2", 5, 4)}
	}
	c := c01Case{In: in, Start: -1, End: -1, Wrap: -1, Threads: rapid.SampledFrom([]int{1, 2}).Draw(t, "threads"), Pad: rapid.Bool().Draw(t, "pad")}
	if rapid.Bool().Draw(t, "window") {
		c.Start, c.End = 1, 10+rapid.IntRange(0, 50).Draw(t, "winEnd")
	}
	return c
}

func genC01(t *rapid.T) c01Case {
	if oneIn(t, "megabase", 200) {
		return genC01Megabase(t)
	}
	if rapid.IntRange(0, 1999).Draw(t, "veryLongRef") == 0 {
		// rows longer than 64 KiB, wrapped at widths around and above 65536 (line buffers of writers end there)
		n := rapid.SampledFrom([]int{66000, 70000, 131100}).Draw(t, "veryLongLen")
		unit := genACGT(t, 997, "veryLongUnit")
		ref := strings.Repeat(unit, n/997+1)[:n]
		c := c01Case{In: genSamInput(t, samGenOpts{maxQueries: 2, maxRecs: 1 + rapid.IntRange(0, 1).Draw(t, "veryLongRecs"), fixedRef: ref, fixedRefName: "longref"})}
		c.Pad = rapid.Bool().Draw(t, "pad")
		c.Start, c.End = -1, -1
		if rapid.Bool().Draw(t, "window") {
			c.Start = rapid.IntRange(1, 1000).Draw(t, "start")
			c.End = n - rapid.IntRange(0, 1000).Draw(t, "endBack")
		}
		c.Wrap = rapid.SampledFrom([]int{65535, 65536, 65537, 66000, n - 1, n, n + 1, 60}).Draw(t, "bigWrap")
		c.Threads = rapid.SampledFrom([]int{1, 2}).Draw(t, "threads")
		return c
	}
	c := c01Case{In: genSamInput(t, samOptsFor(true))}
	L := len(c.In.Ref)
	c.Pad = rapid.Bool().Draw(t, "pad")
	c.Start, c.End = genWindow(t, L)
	c.Wrap = genWrap(t, L)
	c.Threads = rapid.SampledFrom([]int{1, 1, 2, 3, 8}).Draw(t, "threads")
	c.CLI = rapid.IntRange(0, 19).Draw(t, "cli") == 0
	return c
}

func TestC01(t *testing.T) { runProp(t, "C01", genC01, checkC01) }
