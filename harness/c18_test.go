package harness

// C18 — invalid or inconsistent input is refused with a non-zero exit, never silently.
// Process level: valid inputs of every command (from the other properties' generators), one documented
// corruption applied at a chosen record of a chosen input file; the binary must exit non-zero promptly.

import (
	"fmt"
	"os"
	"path/filepath"
	"sort"
	"strconv"
	"strings"
	"testing"
	"time"

	"pgregory.net/rapid"
)

type c18File struct {
	Role    string `json:"role"` // flag the file is passed to, e.g. "-q"
	Name    string `json:"name"` // file name (extension matters for some commands)
	Content string `json:"content"`
	Missing bool   `json:"missing,omitempty"` // do not create the file
}

type c18Case struct {
	Command    []string  `json:"command"` // e.g. ["updown","topranking"]
	Files      []c18File `json:"files"`
	Extra      []string  `json:"extra_args"`
	Corruption string    `json:"corruption"`
	Where      string    `json:"where"` // which file / record
	ValidFiles []c18File `json:"valid_files"`
	ValidExtra []string  `json:"valid_extra_args"`
}

func c18Args(dir string, cmd []string, files []c18File, extra []string) []string {
	args := append([]string{}, cmd...)
	for _, f := range files {
		p := filepath.Join(dir, f.Name)
		if !f.Missing {
			os.WriteFile(p, []byte(f.Content), 0o644)
		}
		args = append(args, f.Role, p)
	}
	return append(args, extra...)
}

func runC18(dir string, cmd []string, files []c18File, extra []string) procResult {
	args := c18Args(dir, cmd, files, extra)
	r := runBin(5*time.Second, "", nil, args...) // a typical run takes 5 ms
	if r.TimedOut {
		r = runBin(25*time.Second, "", nil, args...) // a slow machine is not a hang: confirm with a longer deadline
	}
	return r
}

func checkC18(c c18Case, o *Obs) error {
	if gofastaBin() == "" {
		return fmt.Errorf("VERIF_BIN not set")
	}
	o.Label("cmd:" + strings.Join(c.Command, " "))
	o.Label("corruption:" + c.Corruption)
	o.Label("where:" + c.Where)
	d1, clean1 := caseDir("c18v")
	defer clean1()
	// the uncorrupted input must be accepted, otherwise the case is vacuous
	rv := runC18(d1, c.Command, c.ValidFiles, c.ValidExtra)
	if rv.TimedOut || rv.Exit != 0 {
		return fmt.Errorf("harness: the uncorrupted input is not accepted (exit %d timeout %v): %s\nargs %v %v", rv.Exit, rv.TimedOut, trunc(rv.Stderr+rv.Stdout, 400), c.Command, c.ValidExtra)
	}
	d2, clean2 := caseDir("c18c")
	defer clean2()
	r := runC18(d2, c.Command, c.Files, c.Extra)
	stats.count("process_runs", 2)
	describe := func() string {
		var sb strings.Builder
		sb.WriteString(fmt.Sprintf("gofasta %s %s  [corruption: %s at %s]\n", strings.Join(c.Command, " "), strings.Join(c.Extra, " "), c.Corruption, c.Where))
		for _, f := range c.Files {
			if f.Missing {
				sb.WriteString(fmt.Sprintf("--- %s %s (missing)\n", f.Role, f.Name))
			} else {
				sb.WriteString(fmt.Sprintf("--- %s %s\n%s\n", f.Role, f.Name, trunc(f.Content, 500)))
			}
		}
		return sb.String()
	}
	if r.TimedOut {
		return fmt.Errorf("command did not terminate (killed after 5 s, then again after 25 s) on invalid input\n%s", describe())
	}
	if r.Exit == 0 {
		return fmt.Errorf("invalid input accepted with exit status 0\nstdout: %q\nstderr: %q\n%s", trunc(r.Stdout, 300), trunc(r.Stderr, 300), describe())
	}
	o.LabelIf(r.Exit == 1, "exit:clean-error")
	o.LabelIf(r.Exit == 2, "exit:go-panic")
	if !strings.HasSuffix(c.Where, ":first") || strings.Contains(c.Where, "secondary") {
		o.NonTrivial()
	}
	return nil
}

// ---- corruptions of FASTA text ------------------------------------------------------------------------

func pickRecord(t *rapid.T, n int) (idx int, label string) {
	switch rapid.IntRange(0, 2).Draw(t, "recordAt") {
	case 0:
		return 0, "first"
	case 1:
		return n - 1, "last"
	}
	return n / 2, "middle"
}

// corruptFasta applies a FASTA-level corruption to recs (rendered plain). ok=false if not applicable.
func corruptFasta(t *rapid.T, recs []FaRec, kind string) (content string, where string, ok bool) {
	rs := append([]FaRec(nil), recs...)
	i, lab := pickRecord(t, len(rs))
	switch kind {
	case "unequal-row":
		if len(rs) < 2 && len(rs[0].Seq) < 1 {
			return "", "", false
		}
		if len(rs) < 2 {
			return "", "", false
		}
		// by how much the row is off: one symbol either way, many symbols, half the row, or the whole row (a bare header:
		// what a file truncated just after a header line looks like)
		n := len(rs[i].Seq)
		switch how := rapid.IntRange(0, 5).Draw(t, "unequalHow"); {
		case how == 0 || n < 2:
			rs[i].Seq += "A"
		case how == 1:
			rs[i].Seq = rs[i].Seq[:n-1]
		case how == 2:
			rs[i].Seq += strings.Repeat("ACGT", 1+rapid.IntRange(0, 20).Draw(t, "unequalExtra"))
		case how == 3:
			rs[i].Seq = rs[i].Seq[:n/2]
		case how == 4:
			rs[i].Seq = ""
			lab += "-empty"
		default:
			rs[i].Seq = rs[i].Seq[:rapid.IntRange(1, n-1).Draw(t, "unequalKeep")]
		}
	case "non-iupac":
		b := []byte(rs[i].Seq)
		if len(b) == 0 {
			return "", "", false
		}
		// first and last column get extra weight: line/record boundaries are where scanners special-case
		bp := rapid.IntRange(0, len(b)-1).Draw(t, "badPos")
		switch rapid.IntRange(0, 3).Draw(t, "badPosKind") {
		case 0:
			bp = 0
		case 1:
			bp = len(b) - 1
		}
		b[bp] = rapid.SampledFrom([]byte{'!', 'X', 'U', '*', '.', 'Z', '0'}).Draw(t, "badSym")
		rs[i].Seq = string(b)
	case "empty-file":
		return "", "file", true
	case "wider":
		for k := range rs {
			rs[k].Seq += "A"
		}
		lab = "all"
	default:
		return "", "", false
	}
	return fa(rs...), lab, true
}

// ---- per-command valid inputs -------------------------------------------------------------------------

type c18Builder struct {
	cmd   []string
	files []c18File
	extra []string
	recs  map[string][]FaRec // role -> records, for FASTA inputs
}

func genC18(t *rapid.T) c18Case {
	kind := rapid.SampledFrom([]string{"snps", "closest", "updown-list", "topranking", "variants", "toMultiAlign", "toPairAlign", "sam-variants"}).Draw(t, "command")
	b := c18Builder{recs: map[string][]FaRec{}}
	L := 0
	var samIn *SamInput
	switch kind {
	case "snps":
		s := genC03(t)
		for len(s.Ref.Seq) > 1<<19 {
			s = genC03(t) // C18 writes its files unwrapped: rows beyond the readers' 1 MiB line limit would not be valid input
		}
		for len(s.Recs) < 3 {
			s.Recs = append(s.Recs, FaRec{ID: fmt.Sprintf("x%d", len(s.Recs)), Seq: s.Recs[0].Seq})
		}
		b.cmd = []string{"snps"}
		b.files = []c18File{{Role: "-r", Name: "ref.fasta", Content: fa(s.Ref)}, {Role: "-q", Name: "aln.fasta", Content: fa(s.Recs...)}}
		b.recs["-r"], b.recs["-q"] = []FaRec{s.Ref}, s.Recs
	case "closest":
		c := genC06(t)
		for len(c.Targets) < 3 {
			c.Targets = append(c.Targets, FaRec{ID: fmt.Sprintf("x%d", len(c.Targets)), Seq: c.Targets[0].Seq})
		}
		b.cmd = []string{"closest"}
		b.files = []c18File{{Role: "--query", Name: "q.fasta", Content: fa(c.Queries...)}, {Role: "--target", Name: "t.fasta", Content: fa(c.Targets...)}}
		b.recs["--query"], b.recs["--target"] = c.Queries, c.Targets
		b.extra = []string{"-m", c.Measure}
		if rapid.Bool().Draw(t, "closestN") {
			b.extra = append(b.extra, "-n", "2")
		}
	case "updown-list":
		u := genC08(t)
		for len(u.Targets) < 3 {
			u.Targets = append(u.Targets, FaRec{ID: fmt.Sprintf("x%d", len(u.Targets)), Seq: u.Targets[0].Seq})
		}
		ref := FaRec{ID: "ref", Seq: u.Ref}
		b.cmd = []string{"updown", "list"}
		b.files = []c18File{{Role: "-r", Name: "ref.fasta", Content: fa(ref)}, {Role: "-q", Name: "aln.fasta", Content: fa(u.Targets...)}}
		b.recs["-r"], b.recs["-q"] = []FaRec{ref}, u.Targets
	case "topranking":
		u := genC08(t)
		for len(u.Targets) < 3 {
			u.Targets = append(u.Targets, FaRec{ID: fmt.Sprintf("x%d", len(u.Targets)), Seq: u.Targets[0].Seq})
		}
		ref := FaRec{ID: "ref", Seq: u.Ref}
		b.cmd = []string{"updown", "topranking"}
		qf := c18File{Role: "-q", Name: "q.fasta", Content: fa(u.Queries...)}
		tf := c18File{Role: "-t", Name: "t.fasta", Content: fa(u.Targets...)}
		b.recs["-q"], b.recs["-t"] = u.Queries, u.Targets
		if rapid.Bool().Draw(t, "queryCSV") {
			csv, _ := udListCSV(u.Ref, u.Queries)
			if rapid.IntRange(0, 5).Draw(t, "noQueries") == 0 {
				// a list with its header and no rows (nothing to look up) is accepted; the other inputs must still be checked
				csv = csv[:strings.Index(csv, "\n")+1]
			}
			qf = c18File{Role: "-q", Name: "q.csv", Content: csv}
			delete(b.recs, "-q")
		}
		if rapid.Bool().Draw(t, "targetCSV") {
			csv, _ := udListCSV(u.Ref, u.Targets)
			tf = c18File{Role: "-t", Name: "t.csv", Content: csv}
			delete(b.recs, "-t")
		}
		b.files = []c18File{qf, tf, {Role: "-r", Name: "ref.fasta", Content: fa(ref)}}
		if len(b.recs) > 0 {
			// --reference is only read when --query or --target is a fasta file: corrupting a file the
			// command never opens is not an invalid input
			b.recs["-r"] = []FaRec{ref}
		}
		b.extra = rapid.SampledFrom([][]string{{"--dist-all", "5"}, {"--size-total", "4"}, {"--dist-up", "2", "--dist-down", "2", "--dist-side", "3"},
			{"--size-up", "2", "--size-down", "2", "--size-side", "1", "--size-same", "2"}, {"--dist-push", "2"}, {"--size-total", "6", "--dist-all", "3"}}).Draw(t, "toprankingMode")
		if rapid.IntRange(0, 2).Draw(t, "thresholdTarget") == 0 {
			b.extra = append(b.extra, "--threshold-target", strconv.Itoa(rapid.IntRange(0, 6).Draw(t, "thresholdTargetVal")))
		}
		if rapid.IntRange(0, 3).Draw(t, "thresholdPair") == 0 {
			b.extra = append(b.extra, "--threshold-pair", rapid.SampledFrom([]string{"0.0", "0.5", "1.0"}).Draw(t, "thresholdPairVal"))
		}
		if rapid.IntRange(0, 3).Draw(t, "table") == 0 {
			b.extra = append(b.extra, "--table")
		}
		L = len(u.Ref)
	case "variants":
		vc := genVarCase(t, "aa")
		for vc.Form != "msa" || vc.Msa.RefAt < 0 {
			vc.Form = "msa"
			m := genMSA(t, vc.Anno, 4, true)
			vc.Msa, vc.Sam = &m, nil
		}
		for len(vc.Msa.Rows) < 4 {
			vc.Msa.Rows = append(vc.Msa.Rows, FaRec{ID: fmt.Sprintf("x%d", len(vc.Msa.Rows)), Seq: vc.Msa.Rows[len(vc.Msa.Rows)-1].Seq})
		}
		b.cmd = []string{"variants"}
		b.files = []c18File{{Role: "--msa", Name: "aln.fasta", Content: fa(vc.Msa.Rows...)}, {Role: "-a", Name: "anno." + vc.Format, Content: vc.annoText()}}
		b.recs["--msa"] = vc.Msa.Rows
		b.extra = []string{"--reference", vc.Msa.RefID}
		L = len(vc.Anno.Ref)
	case "toMultiAlign", "toPairAlign":
		in := genSamInput(t, samGenOpts{maxRef: 40, maxQueries: 4, maxRecs: 2})
		samIn = &in
		L = len(in.Ref)
		if kind == "toMultiAlign" {
			b.cmd = []string{"sam", "toMultiAlign"}
			b.files = []c18File{{Role: "-s", Name: "in.sam", Content: in.render()}}
		} else {
			b.cmd = []string{"sam", "toPairAlign"}
			b.files = []c18File{{Role: "-s", Name: "in.sam", Content: in.render()}, {Role: "-r", Name: "ref.fasta", Content: in.refFasta()}}
			b.recs["-r"] = []FaRec{{ID: in.RefName, Seq: in.Ref}}
			b.extra = []string{"-o", "stdout"}
		}
	case "sam-variants":
		vc := genVarCase(t, "aa")
		for vc.Form != "sam" {
			vc.Form = "sam"
			in := genSamInput(t, samGenOpts{maxQueries: 3, maxRecs: 2, fixedRef: vc.Anno.Ref, fixedRefName: vc.Anno.RefName})
			vc.Sam, vc.Msa = &in, nil
		}
		samIn = vc.Sam
		L = len(vc.Anno.Ref)
		b.cmd = []string{"sam", "variants"}
		b.files = []c18File{{Role: "-s", Name: "in.sam", Content: vc.Sam.render()}, {Role: "-r", Name: "ref.fasta", Content: vc.Sam.refFasta()}, {Role: "-a", Name: "anno." + vc.Format, Content: vc.annoText()}}
		b.recs["-r"] = []FaRec{{ID: vc.Sam.RefName, Seq: vc.Sam.Ref}}
	}
	c := c18Case{Command: b.cmd, ValidFiles: append([]c18File(nil), b.files...), ValidExtra: append([]string(nil), b.extra...)}
	files := append([]c18File(nil), b.files...)
	extra := append([]string(nil), b.extra...)

	// candidate corruptions for this command
	type cand struct {
		name  string
		apply func() (where string, ok bool)
	}
	var cands []cand
	fileIdx := func(role string) int {
		for i, f := range files {
			if f.Role == role {
				return i
			}
		}
		return -1
	}
	secondary := func(i int) string {
		if i > 0 {
			return "secondary-file:"
		}
		return "primary-file:"
	}
	var roles []string
	for role := range b.recs {
		roles = append(roles, role)
	}
	sort.Strings(roles)
	for _, role := range roles {
		role, recs := role, b.recs[role]
		i := fileIdx(role)
		isRefFile := role == "-r"
		if !isRefFile {
			cands = append(cands, cand{"unequal-row", func() (string, bool) {
				txt, lab, ok := corruptFasta(t, recs, "unequal-row")
				if ok {
					files[i].Content = txt
				}
				return secondary(i) + role + ":" + lab, ok
			}})
		}
		cands = append(cands, cand{"non-iupac", func() (string, bool) {
			txt, lab, ok := corruptFasta(t, recs, "non-iupac")
			if ok {
				files[i].Content = txt
			}
			return secondary(i) + role + ":" + lab, ok
		}})
		cands = append(cands, cand{"empty-file", func() (string, bool) {
			files[i].Content = ""
			return secondary(i) + role + ":file", true
		}})
		cands = append(cands, cand{"missing-file", func() (string, bool) {
			files[i].Missing = true
			return secondary(i) + role + ":file", true
		}})
		if isRefFile && kind != "topranking" || isRefFile && len(b.recs) > 1 {
			cands = append(cands, cand{"reference-two-records", func() (string, bool) {
				second := FaRec{ID: "second", Seq: recs[0].Seq}
				lab := ":last"
				switch rapid.IntRange(0, 3).Draw(t, "secondRefRecord") {
				case 0: // a second record that is only a header
					second.Seq = ""
					lab = ":last-empty"
				case 1:
					second.Seq = second.Seq[:len(second.Seq)/2]
				}
				files[i].Content = fa(recs[0], second)
				return secondary(i) + role + lab, true
			}})
		}
		// width mismatch between the two FASTA inputs of a command
		if kind == "snps" || kind == "closest" || kind == "updown-list" || (kind == "topranking" && role != "-r") {
			cands = append(cands, cand{"width-mismatch", func() (string, bool) {
				txt, _, ok := corruptFasta(t, recs, "wider")
				if ok {
					files[i].Content = txt
				}
				return secondary(i) + role + ":all", ok
			}})
		}
	}
	switch kind {
	case "topranking":
		for _, role := range []string{"-q", "-t"} {
			i := fileIdx(role)
			if strings.HasSuffix(files[i].Name, ".csv") {
				i := i
				role := role
				cands = append(cands, cand{"empty-csv", func() (string, bool) {
					files[i].Content = ""
					return secondary(i) + role + ":file", true
				}})
				cands = append(cands, cand{"csv-not-updown-list", func() (string, bool) {
					files[i].Content = "query,SNPs\nq0,A1T\n"
					return secondary(i) + role + ":header", true
				}})
				cands = append(cands, cand{"csv-row-not-updown-list", func() (string, bool) {
					// one row (first, middle, last) that `updown list` cannot have written
					lines := strings.Split(strings.TrimSuffix(files[i].Content, "\n"), "\n")
					if len(lines) < 2 {
						return "", false
					}
					ri, lab := pickRecord(t, len(lines)-1)
					f := strings.Split(lines[1+ri], ",")
					if len(f) != 5 {
						return "", false
					}
					// make the row look heavily ambiguous as well, so that filters on the counts see it as one to drop
					heavy := rapid.Bool().Draw(t, "heavyRow")
					if heavy {
						f[2], f[4] = "1-"+strconv.Itoa(L), strconv.Itoa(L)
					}
					// (the SNPcount column is not among them: gofasta recomputes it from the SNP list and never reads it, so a
					// wrong or non-numeric SNPcount violates nothing gofasta documents or checks)
					switch rapid.IntRange(0, 4).Draw(t, "badRowKind") {
					case 0:
						f[1] = rapid.SampledFrom([]string{"CxT", "A", "A1", "12", "A0T|", "AxT|C5T"}).Draw(t, "badSNP")
						f[3] = "1"
					case 1:
						f[2] = rapid.SampledFrom([]string{"1-x", "1-2-3", "x", "-", "2-"}).Draw(t, "badAmb")
					case 2:
						f = f[:4]
					case 3:
						f = append(f, "extra")
					default:
						f[4] = "lots"
					}
					lines[1+ri] = strings.Join(f, ",")
					files[i].Content = strings.Join(lines, "\n") + "\n"
					if heavy {
						lab += "-heavy"
					}
					return secondary(i) + role + ":" + lab, true
				}})
				cands = append(cands, cand{"missing-file", func() (string, bool) {
					files[i].Missing = true
					return secondary(i) + role + ":file", true
				}})
			}
		}
		cands = append(cands, cand{"no-size-or-dist-option", func() (string, bool) {
			extra = nil
			return "options", true
		}})
	case "variants", "sam-variants":
		ai := fileIdx("-a")
		cands = append(cands, cand{"unknown-annotation-suffix", func() (string, bool) {
			files[ai].Name = "anno.txt"
			return "secondary-file:-a:name", true
		}})
		cands = append(cands, cand{"missing-file", func() (string, bool) {
			files[ai].Missing = true
			return "secondary-file:-a:file", true
		}})
		if kind == "variants" {
			cands = append(cands, cand{"reference-alignment-width", func() (string, bool) {
				// the annotation (and its reference) is one base longer than the reference row of the alignment
				return "secondary-file:-a:all", widenAnnotation(&files[ai])
			}})
		}
	}
	if samIn != nil {
		si := fileIdx("-s")
		cands = append(cands, cand{"empty-sam", func() (string, bool) {
			files[si].Content = ""
			return "primary-file:-s:file", true
		}})
		cands = append(cands, cand{"missing-file", func() (string, bool) {
			files[si].Missing = true
			return "primary-file:-s:file", true
		}})
		if kind == "toMultiAlign" {
			// only toMultiAlign depends on the header (the row length is @SQ LN); toPairAlign and sam variants take
			// every length from --reference and neither document nor check the header, so for them a header-less
			// stream is not an input condition the statement covers (see DESIGN.md §9)
			cands = append(cands, cand{"headerless-sam", func() (string, bool) {
				var keep []string
				for _, l := range strings.Split(files[si].Content, "\n") {
					if !strings.HasPrefix(l, "@") {
						keep = append(keep, l)
					}
				}
				files[si].Content = strings.Join(keep, "\n")
				return "primary-file:-s:header", true
			}})
		}
		if kind == "toMultiAlign" || kind == "toPairAlign" {
			cands = append(cands, cand{"window-outside-reference", func() (string, bool) {
				switch rapid.IntRange(0, 3).Draw(t, "badWindow") {
				case 0:
					extra = append(extra, "--start", "0")
				case 1:
					extra = append(extra, "--end", strconv.Itoa(L+1))
				case 2:
					extra = append(extra, "--start", strconv.Itoa(L+1))
				default:
					extra = append(extra, "--end", "0")
				}
				return "options", true
			}})
			cands = append(cands, cand{"window-both-bounds-one-outside", func() (string, bool) {
				// both bounds given; one (or both) lies outside 1..L; includes windows whose width equals the reference length
				var s, e int
				switch rapid.IntRange(0, 5).Draw(t, "shiftKind") {
				case 0:
					s, e = 0, L-1
				case 1:
					s, e = 2, L+1
				case 2:
					s, e = 0, L
				case 3:
					s, e = 1, L+1
				case 4:
					s, e = 0, rapid.IntRange(1, L).Draw(t, "eIn")
				default:
					s, e = rapid.IntRange(1, L).Draw(t, "sIn"), L+rapid.IntRange(1, 3).Draw(t, "eOut")
				}
				if e < 1 {
					e = L + 1
				}
				extra = append(extra, "--start", strconv.Itoa(s), "--end", strconv.Itoa(e))
				return "options", true
			}})
			if L >= 2 {
				cands = append(cands, cand{"window-start-after-end", func() (string, bool) {
					s := rapid.IntRange(2, L).Draw(t, "wStart")
					e := rapid.IntRange(1, s-1).Draw(t, "wEnd")
					extra = append(extra, "--start", strconv.Itoa(s), "--end", strconv.Itoa(e))
					return "options", true
				}})
			}
		}
	}
	// deterministic order of candidates (map iteration above): sort by name+role via a stable key
	names := make([]string, len(cands))
	for i, cd := range cands {
		names[i] = cd.name
	}
	order := sortedIndex(names)
	for tries := 0; tries < 8; tries++ {
		k := order[rapid.IntRange(0, len(order)-1).Draw(t, "corruption")]
		files = append([]c18File(nil), b.files...)
		extra = append([]string(nil), b.extra...)
		if where, ok := cands[k].apply(); ok {
			c.Corruption, c.Where = cands[k].name, where
			c.Files, c.Extra = files, extra
			return c
		}
	}
	// fall back: an empty primary input always applies
	files = append([]c18File(nil), b.files...)
	files[0].Content = ""
	c.Corruption, c.Where, c.Files, c.Extra = "empty-file", "primary-file:"+files[0].Role+":file", files, b.extra
	return c
}

// sortedIndex returns indices ordered by (name, original index): removes map-iteration nondeterminism.
func sortedIndex(names []string) []int {
	idx := make([]int, len(names))
	for i := range idx {
		idx[i] = i
	}
	for i := 1; i < len(idx); i++ {
		for j := i; j > 0 && names[idx[j]] < names[idx[j-1]]; j-- {
			idx[j], idx[j-1] = idx[j-1], idx[j]
		}
	}
	return idx
}

// widenAnnotation makes the annotation's own sequence one base longer (GenBank ORIGIN / GFF ##FASTA and
// ##sequence-region), so that the reference row of the alignment no longer matches its coordinates.
func widenAnnotation(f *c18File) bool {
	if strings.HasSuffix(f.Name, ".gb") {
		i := strings.LastIndex(f.Content, "\n//")
		if i < 0 {
			return false
		}
		f.Content = f.Content[:i] + "a" + f.Content[i:]
		return true
	}
	if !strings.Contains(f.Content, "##sequence-region") {
		return false
	}
	lines := strings.Split(f.Content, "\n")
	for i, l := range lines {
		if strings.HasPrefix(l, "##sequence-region") {
			p := strings.Fields(l)
			n, err := strconv.Atoi(p[3])
			if err != nil {
				return false
			}
			p[3] = strconv.Itoa(n + 1)
			lines[i] = strings.Join(p, " ")
		}
	}
	f.Content = strings.Join(lines, "\n")
	return true
}

func TestC18(t *testing.T) { runProp(t, "C18", genC18, checkC18) }
