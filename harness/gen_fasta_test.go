package harness

import (
	"fmt"
	"strings"

	"pgregory.net/rapid"
)

// FaRec is one FASTA record of the model.
type FaRec struct {
	ID   string `json:"id"`
	Desc string `json:"desc,omitempty"` // text after the ID on the header line (may be empty)
	Seq  string `json:"seq"`
}

func (r FaRec) Header() string {
	if r.Desc == "" {
		return r.ID
	}
	return r.ID + " " + r.Desc
}

// Layout describes how a list of records is laid out as bytes.
type Layout struct {
	Width   int  `json:"width"`   // line width for sequence lines; 0 = unwrapped
	CRLF    bool `json:"crlf"`    // \r\n line ends
	FinalNL bool `json:"finalnl"` // file ends with a line terminator
}

func plainLayout() Layout { return Layout{Width: 0, CRLF: false, FinalNL: true} }

func renderFasta(recs []FaRec, lay Layout) string {
	nl := "\n"
	if lay.CRLF {
		nl = "\r\n"
	}
	var sb strings.Builder
	for _, r := range recs {
		sb.WriteString(">" + r.Header() + nl)
		if lay.Width <= 0 {
			sb.WriteString(r.Seq + nl)
		} else {
			for i := 0; i < len(r.Seq); i += lay.Width {
				j := i + lay.Width
				if j > len(r.Seq) {
					j = len(r.Seq)
				}
				sb.WriteString(r.Seq[i:j] + nl)
			}
		}
	}
	s := sb.String()
	if !lay.FinalNL {
		s = strings.TrimSuffix(s, nl)
	}
	return s
}

func fa(recs ...FaRec) string { return renderFasta(recs, plainLayout()) }

func genLayout(t *rapid.T, maxWidth int) Layout {
	l := Layout{FinalNL: true}
	if rapid.IntRange(0, 2).Draw(t, "wrapMode") > 0 {
		if maxWidth < 1 {
			maxWidth = 1
		}
		l.Width = rapid.IntRange(1, maxWidth).Draw(t, "lineWidth")
	}
	l.CRLF = rapid.IntRange(0, 3).Draw(t, "crlf") == 0
	l.FinalNL = rapid.IntRange(0, 3).Draw(t, "finalnl") != 0
	return l
}

func genID(t *rapid.T, i int, label string) string {
	// IDs are unique by construction (index suffix) and free of whitespace, commas and '/'.
	stem := rapid.SampledFrom([]string{"q", "seq", "hCoV-19_x", "S", "Wuhan|2020", "t", "sample.1", "#s", "EPI_ISL_", "2020-03-"}).Draw(t, label)
	return fmt.Sprintf("%s%d", stem, i)
}

func genDesc(t *rapid.T, label string) string {
	return rapid.SampledFrom([]string{"", "", "", "desc", "a b  c", "len=29903 x"}).Draw(t, label)
}

// parse a plain two-column CSV-ish output (no quoting is ever produced by gofasta).
func parseRows(out string) [][]string {
	var rows [][]string
	for _, l := range splitLines(out) {
		rows = append(rows, strings.Split(l, ","))
	}
	return rows
}
