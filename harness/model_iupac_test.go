package harness

// Independent reference models written from the documentation, not from gofasta's bit codes:
// IUPAC base sets, completeness score, standard genetic code, complement.

import (
	"strings"

	"pgregory.net/rapid"
)

const (
	bA = 1
	bC = 2
	bG = 4
	bT = 8
)

// the 15 IUPAC nucleotide codes
const iupac15 = "ACGTRYSWKMBDHVN"

// the 17-symbol alignment alphabet
const alpha17 = "ACGTRYSWKMBDHVN-?"

// baseSet returns the set of bases a symbol denotes (bit set over A,C,G,T); ok=false if the
// symbol is not in the 17-symbol alphabet (either case).
func baseSet(sym byte, hardGaps bool) (set uint8, ok bool) {
	switch sym {
	case 'A', 'a':
		return bA, true
	case 'C', 'c':
		return bC, true
	case 'G', 'g':
		return bG, true
	case 'T', 't':
		return bT, true
	case 'R', 'r':
		return bA | bG, true
	case 'Y', 'y':
		return bC | bT, true
	case 'S', 's':
		return bC | bG, true
	case 'W', 'w':
		return bA | bT, true
	case 'K', 'k':
		return bG | bT, true
	case 'M', 'm':
		return bA | bC, true
	case 'B', 'b':
		return bC | bG | bT, true
	case 'D', 'd':
		return bA | bG | bT, true
	case 'H', 'h':
		return bA | bC | bT, true
	case 'V', 'v':
		return bA | bC | bG, true
	case 'N', 'n', '?':
		return 15, true
	case '-':
		if hardGaps {
			return 0, true
		}
		return 15, true
	}
	return 0, false
}

func mustSet(sym byte, hardGaps bool) uint8 {
	s, ok := baseSet(sym, hardGaps)
	if !ok {
		panic("model: symbol outside alphabet: " + string(sym))
	}
	return s
}

func popcount4(x uint8) int {
	n := 0
	for i := 0; i < 4; i++ {
		if x&(1<<i) != 0 {
			n++
		}
	}
	return n
}

// disjoint: the two symbols certainly differ.
func disjoint(a, b byte, hardGaps bool) bool {
	return mustSet(a, hardGaps)&mustSet(b, hardGaps) == 0
}

func isACGT(sym byte) bool {
	switch sym {
	case 'A', 'C', 'G', 'T', 'a', 'c', 'g', 't':
		return true
	}
	return false
}

func upper(b byte) byte {
	if b >= 'a' && b <= 'z' {
		return b - 32
	}
	return b
}

// symbolForSet returns the IUPAC letter denoting exactly this non-empty base set.
func symbolForSet(s uint8) byte {
	for i := 0; i < len(iupac15); i++ {
		if mustSet(iupac15[i], false) == s {
			return iupac15[i]
		}
	}
	panic("no symbol for set")
}

// completeness score as documented in encoding.MakeScoreArray: 12/|set|, with N,-,? = 3.
func completenessScore(seq string) int64 {
	var t int64
	for i := 0; i < len(seq); i++ {
		s := mustSet(seq[i], false)
		t += int64(12 / popcount4(s))
	}
	return t
}

// complement of a base set: A<->T, C<->G.
func compSet(s uint8) uint8 {
	var r uint8
	if s&bA != 0 {
		r |= bT
	}
	if s&bT != 0 {
		r |= bA
	}
	if s&bC != 0 {
		r |= bG
	}
	if s&bG != 0 {
		r |= bC
	}
	return r
}

// NCBI transl_table=1, in TCAG order.
const ncbiTable1 = "FFLLSSSSYY**CC*WLLLLPPPPHHQQRRRRIIIMTTTTNNKKSSRRVVVVAAAADDEEGGGG"

func tcagIndex(b uint8) int {
	switch b {
	case bT:
		return 0
	case bC:
		return 1
	case bA:
		return 2
	case bG:
		return 3
	}
	panic("not a single base")
}

// translateCodonModel: the amino acid (or '*') if every A/C/G/T expansion of the IUPAC codon gives
// the same product, else 'X'. Symbols outside the 15 IUPAC codes (gap, '?') give 'X'.
func translateCodonModel(codon string) byte {
	if len(codon) != 3 {
		return 'X'
	}
	var sets [3]uint8
	for i := 0; i < 3; i++ {
		c := upper(codon[i])
		if !strings.ContainsRune(iupac15, rune(c)) {
			return 'X'
		}
		sets[i] = mustSet(c, false)
	}
	var prod byte
	for _, b1 := range []uint8{bT, bC, bA, bG} {
		if sets[0]&b1 == 0 {
			continue
		}
		for _, b2 := range []uint8{bT, bC, bA, bG} {
			if sets[1]&b2 == 0 {
				continue
			}
			for _, b3 := range []uint8{bT, bC, bA, bG} {
				if sets[2]&b3 == 0 {
					continue
				}
				aa := ncbiTable1[16*tcagIndex(b1)+4*tcagIndex(b2)+tcagIndex(b3)]
				if prod == 0 {
					prod = aa
				} else if prod != aa {
					return 'X'
				}
			}
		}
	}
	return prod
}

func translateModel(nuc string) string {
	var sb strings.Builder
	for i := 0; i+3 <= len(nuc); i += 3 {
		sb.WriteByte(translateCodonModel(nuc[i : i+3]))
	}
	return sb.String()
}

func complementBase(b byte) byte {
	return symbolForSet(compSet(mustSet(b, false)))
}

// ---------------------------------------------------------------------------------------------
// small generators shared by many properties

func genACGT(t *rapid.T, n int, label string) string {
	b := make([]byte, n)
	for i := range b {
		b[i] = "ACGT"[rapid.IntRange(0, 3).Draw(t, label)]
	}
	return string(b)
}

// genSym draws one alignment symbol: mostly A/C/G/T, sometimes an ambiguity code / N / gap / ?.
func genSym(t *rapid.T, label string) byte {
	k := rapid.IntRange(0, 99).Draw(t, label)
	switch {
	case k < 70:
		return "ACGT"[k%4]
	case k < 85:
		return alpha17[4+k%11]
	case k < 92:
		return 'N'
	case k < 98:
		return '-'
	default:
		return '?'
	}
}

func randomCase(t *rapid.T, s string, label string) string {
	mode := rapid.IntRange(0, 3).Draw(t, label+"Mode")
	switch mode {
	case 0:
		return s
	case 1:
		return strings.ToLower(s)
	}
	b := []byte(s)
	for i := range b {
		if rapid.Bool().Draw(t, label) {
			b[i] = lower(b[i])
		}
	}
	return string(b)
}

// sizeClass: most cases are small (many small cases beat few large ones); a few per cent are drawn from the
// regions where implementation thresholds live: more records than any channel buffer or worker pool
// (50+threads, NumCPU+50), and sequences / lines longer than common buffer sizes (4096, 8192).
// 0 = small, 1 = many records, 2 = long sequences.
func sizeClass(t *rapid.T, label string) int {
	switch rapid.IntRange(0, 49).Draw(t, label+"SizeClass") {
	case 0, 1:
		return 1
	case 2:
		return 2
	}
	return 0
}

// oneIn reports true for about 0.7/n of the cases. rapid's integer generators favour small values (IntRange(0,n-1)==0
// happens in roughly one case in ten whatever n is), which suits the cheap edge classes but not the expensive ones
// (genome-sized references); for those the draw is hashed so that small draws, and the shrunk case, fall outside the class.
func oneIn(t *rapid.T, label string, n int) bool {
	v := rapid.Uint64().Draw(t, label)
	if v < 1<<20 {
		return false
	}
	v ^= v >> 30
	v *= 0xbf58476d1ce4e5b9
	v ^= v >> 27
	v *= 0x94d049bb133111eb
	v ^= v >> 31
	return v%uint64(n) == 0
}

func lower(b byte) byte {
	if b >= 'A' && b <= 'Z' {
		return b + 32
	}
	return b
}
