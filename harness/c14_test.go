package harness

// C14 — GenBank and GFF3 descriptions of the same genes give the same mutations.

import (
	"fmt"
	"strings"
	"testing"

	"pgregory.net/rapid"
)

type c14Case struct {
	varCase
	AppendSNP bool `json:"append_snps"`
}

// rowOrderedByPosition: each record's position (explicit, or any coordinate of the codon) is non-decreasing.
func rowOrderedByPosition(muts []string, a Anno) error {
	cur := -1 << 30
	for _, m := range muts {
		lo, hi, err := mutInterval(m, a)
		if err != nil {
			return err
		}
		if strings.HasPrefix(m, "aa:") {
			lo, hi = lo-2, hi+2
		}
		if lo > cur {
			cur = lo
		}
		if cur > hi {
			return fmt.Errorf("records not ordered by genomic position at %s in %v", m, muts)
		}
	}
	return nil
}

func checkC14(c c14Case, o *Obs) error {
	gb, gf := c.varCase, c.varCase
	gb.Format, gf.Format = "gb", "gff"
	labelVarCase(gb, o)
	o.LabelIf(c.GFF.SpecPhases, "gff:spec-phases")
	o.LabelIf(c.GFF.SortRows, "gff:coordinate-sorted-rows")
	o.LabelIf(c.GFF.ParentAttr, "gff:parent-attributes")
	o.LabelIf(c.AppendSNP, "append-snps")
	run := varRunOpts{Start: -1, End: -1, AppendSNP: c.AppendSNP}
	outGB, err := runVariants(gb, run)
	if err != nil {
		return fmt.Errorf("GenBank annotation: %v\n%s\n%s", err, gb.describe(), gb.annoText())
	}
	outGFF, err := runVariants(gf, run)
	if err != nil {
		return fmt.Errorf("GFF3 annotation refused/failed while the GenBank form of the same features works: %v\n%s\n%s", err, gf.describe(), gf.annoText())
	}
	o1, r1, err := parseVariantsOutput(outGB)
	if err != nil {
		return err
	}
	o2, r2, err := parseVariantsOutput(outGFF)
	if err != nil {
		return err
	}
	if strings.Join(o1, ",") != strings.Join(o2, ",") {
		return fmt.Errorf("row order differs: genbank %v gff %v", o1, o2)
	}
	ea := gb.effectiveAnno()
	nt := false
	for _, n := range o1 {
		if sortedJoin(r1[n]) != sortedJoin(r2[n]) {
			return fmt.Errorf("query %s: GenBank annotation gives %v\n but the equivalent GFF3 gives %v\n%s\n--- genbank ---\n%s--- gff ---\n%s", n, r1[n], r2[n], gb.describe(), trunc(gb.annoText(), 1500), trunc(gf.annoText(), 1000))
		}
		if err := rowOrderedByPosition(r1[n], ea); err != nil {
			return fmt.Errorf("query %s (genbank): %v", n, err)
		}
		if err := rowOrderedByPosition(r2[n], ea); err != nil {
			return fmt.Errorf("query %s (gff): %v", n, err)
		}
		for _, m := range r1[n] {
			if strings.HasPrefix(m, "aa:") {
				f := strings.Split(m, ":")
				for _, ft := range ea.Feats {
					if ft.Name == f[1] && (ft.Strand < 0 || len(ft.Segs) > 1) {
						nt = true
					}
				}
			}
		}
	}
	if nt {
		o.NonTrivial()
		o.Label("aa-call-in-reverse-or-joined-feature")
	}
	return nil
}

func genC14(t *rapid.T) c14Case {
	vc := varCase{Format: "gb"}
	vc.Form = rapid.SampledFrom([]string{"msa", "msa", "sam"}).Draw(t, "form")
	ao := annoGenOpts{minRef: 20, maxRef: ifThorough(300, 90), maxFeats: ifThorough(6, 4), iupacOutside: true, twoProducts: true}
	vc.GFF = gffOpts{SequenceRegion: rapid.Bool().Draw(t, "seqRegion"), WithFasta: true, GeneRows: rapid.Bool().Draw(t, "geneRows"), SortRows: rapid.Bool().Draw(t, "sortRows"), ParentAttr: rapid.IntRange(0, 2).Draw(t, "parentAttr") == 0}
	switch rapid.IntRange(0, 2).Draw(t, "gffDialect") {
	case 0:
		ao.codonAligned = true // dialect (i): every segment starts on a codon boundary, phase 0 on continuation rows
	case 1:
		vc.GFF.SpecPhases = true // dialect (ii): arbitrary boundaries, spec-correct continuation phases
	default:
		ao.codonAligned = true
		vc.GFF.SpecPhases = true
	}
	vc.Anno = genAnno(t, ao)
	vc.Threads = rapid.SampledFrom([]int{1, 1, 2}).Draw(t, "threads")
	if vc.Form == "msa" {
		m := genMSA(t, vc.Anno, 3, false)
		vc.Msa = &m
	} else {
		in := genSamInput(t, samGenOpts{maxQueries: 3, maxRecs: 2, allowNoise: false, fixedRef: vc.Anno.Ref, fixedRefName: vc.Anno.RefName})
		vc.Sam = &in
		vc.RefFromFile = rapid.IntRange(0, 3).Draw(t, "refFromFile") != 0
	}
	return c14Case{varCase: vc, AppendSNP: rapid.Bool().Draw(t, "appendSNP")}
}

func TestC14(t *testing.T) { runProp(t, "C14", genC14, checkC14) }
