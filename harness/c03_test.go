package harness

// C03 — snps reports exactly the certainly-different sites, in reference order.

import (
	"bytes"
	"fmt"
	"strconv"
	"strings"
	"testing"

	"github.com/virus-evolution/gofasta/pkg/snps"
	"pgregory.net/rapid"
)

type c03Case struct {
	Ref      FaRec   `json:"ref"`
	Recs     []FaRec `json:"recs"`
	RefLay   Layout  `json:"ref_layout"`
	AlnLay   Layout  `json:"aln_layout"`
	HardGaps bool    `json:"hard_gaps"`
	CLI      bool    `json:"cli,omitempty"`
}

func c03Expected(c c03Case) string {
	var sb strings.Builder
	sb.WriteString("query,SNPs\n")
	for _, r := range c.Recs {
		var items []string
		for i := 0; i < len(r.Seq); i++ {
			if disjoint(c.Ref.Seq[i], r.Seq[i], c.HardGaps) {
				items = append(items, string(upper(c.Ref.Seq[i]))+strconv.Itoa(i+1)+string(upper(r.Seq[i])))
			}
		}
		sb.WriteString(r.ID + "," + strings.Join(items, "|") + "\n")
	}
	return sb.String()
}

func checkC03(c c03Case, o *Obs) error {
	want := c03Expected(c)
	// classification
	nt := false
	for _, r := range c.Recs {
		for i := 0; i < len(r.Seq); i++ {
			if disjoint(c.Ref.Seq[i], r.Seq[i], c.HardGaps) {
				if !isACGT(r.Seq[i]) || !isACGT(c.Ref.Seq[i]) {
					nt = true
					o.Label("snp-with-ambiguity-code")
				}
			}
			if c.HardGaps && (r.Seq[i] == '-' || c.Ref.Seq[i] == '-') {
				nt = true
				o.Label("hardgap-column")
			}
		}
	}
	if nt {
		o.NonTrivial()
	}
	o.LabelIf(c.HardGaps, "hard-gaps")
	o.LabelIf(len(c.Recs) > 1, "records>1")
	o.LabelIf(len(c.Recs) > 50, "records>50")
	o.LabelIf(len(c.Ref.Seq) > 4096, "width>4096")
	o.LabelIf(len(c.Recs)*len(c.Ref.Seq) >= 1<<20, "alignment>=1MiB")
	o.LabelIf(len(c.Ref.Seq) > 65535, "width>65535")
	o.LabelIf(len(c.Ref.Seq) > 1<<20, "width>2^20")
	for _, l := range strings.Split(want, "\n") {
		o.LabelIf(len(l) > 65536, "output-row>64KiB")
	}
	o.LabelIf(c.AlnLay.Width > 0, "wrapped")
	o.LabelIf(c.AlnLay.CRLF, "crlf")

	var out bytes.Buffer
	refTxt := renderFasta([]FaRec{c.Ref}, c.RefLay)
	alnTxt := renderFasta(c.Recs, c.AlnLay)
	if err := mustRun("snps.SNPs", func() error {
		return snps.SNPs(strings.NewReader(refTxt), strings.NewReader(alnTxt), c.HardGaps, false, 0, &out)
	}); err != nil {
		return err
	}
	if out.String() != want {
		return fmt.Errorf("snps output differs from the set-disjointness model\n got: %q\nwant: %q\n%s", trunc(out.String(), 600), trunc(want, 600), firstDiff(out.String(), want))
	}
	if c.CLI && gofastaBin() != "" {
		dir, cleanup := caseDir("c03cli")
		defer cleanup()
		args := []string{"snps", "-r", writeFile(dir, "ref.fa", refTxt)}
		stdin := ""
		if len(c.Recs)%2 == 0 && len(alnTxt) < 60000 {
			stdin = alnTxt // -q defaults to stdin
		} else {
			args = append(args, "-q", writeFile(dir, "aln.fa", alnTxt))
		}
		if c.HardGaps {
			args = append(args, "--hard-gaps")
		}
		if err := cliAgreeStdin(o, "snps", want, stdin, args...); err != nil {
			return err
		}
	}
	return nil
}

func genAlnSeq(t *rapid.T, n int, label string) string {
	b := make([]byte, n)
	for i := range b {
		b[i] = genSym(t, label)
	}
	return string(b)
}

// genC03Bulk: an alignment whose total size (records x width) is beyond 1 MiB / 2 MiB - the everyday size of a real run
// (35 SARS-CoV-2 genomes are 1 MiB) - built from a handful of drawn templates so that generation stays cheap.
// c03Chromosome enables the > 2^20-column class; set by TestC03 / FuzzC03 only.
var c03Chromosome bool

func genC03Bulk(t *rapid.T) c03Case {
	w := rapid.SampledFrom([]int{2000, 5000, 29903, 70000, 70000, 1048600}).Draw(t, "bulkWidth") // 70000: column numbers beyond 16 bits; 1048600: beyond 2^20
	if w > 1<<20 && !c03Chromosome {
		w = 70000 // the checks that borrow this generator (C12, C13, C18, C19) multiply or unwrap the records: no chromosome-sized rows there
	}
	total := rapid.SampledFrom([]int{1100000, 1300000, 2200000}).Draw(t, "bulkTotal")
	unit := genACGT(t, 997, "bulkUnit")
	ref := []byte(strings.Repeat(unit, w/997+1)[:w])
	for k := rapid.IntRange(0, 3).Draw(t, "nRefAmb"); k > 0; k-- {
		ref[rapid.IntRange(0, w-1).Draw(t, "refAmbPos")] = rapid.SampledFrom([]byte{'N', 'R', 'Y', '-'}).Draw(t, "refAmbSym")
	}
	c := c03Case{HardGaps: rapid.Bool().Draw(t, "hardGaps"), Ref: FaRec{ID: "ref", Seq: string(ref)}}
	var templates []string
	for i := 0; i < 6; i++ {
		b := append([]byte(nil), ref...)
		switch rapid.IntRange(0, 5).Draw(t, "templateKind") {
		case 0: // identical to the reference
		case 1: // different at every column (a slow record with a long output row)
			for j := range b {
				if isACGT(b[j]) {
					b[j] = transitionOf(b[j])
				} else {
					b[j] = 'A'
				}
			}
		default:
			for k := rapid.IntRange(1, 12).Draw(t, "nchanges"); k > 0; k-- {
				b[rapid.IntRange(0, w-1).Draw(t, "chpos")] = alpha17[rapid.IntRange(0, 16).Draw(t, "chsym")]
			}
			// and one in the last columns, whatever the draws above favour
			b[w-1-rapid.IntRange(0, 99).Draw(t, "lateChange")] = alpha17[rapid.IntRange(0, 16).Draw(t, "chsym")]
		}
		templates = append(templates, string(b))
	}
	n := total/w + 2
	if w > 1<<20 {
		n = 2
	}
	for i := 0; i < n; i++ {
		c.Recs = append(c.Recs, FaRec{ID: fmt.Sprintf("s%d", i), Seq: templates[rapid.IntRange(0, 5).Draw(t, "template")]})
	}
	c.RefLay = plainLayout()
	c.AlnLay = Layout{FinalNL: true, Width: rapid.SampledFrom([]int{0, 0, 60}).Draw(t, "alnWidth")}
	c.CLI = rapid.IntRange(0, 3).Draw(t, "cli") == 0
	if w > 1<<20 {
		// the readers take lines of up to 1 MiB: a chromosome-sized alignment has to be wrapped
		c.RefLay.Width, c.AlnLay.Width = 60000, 60000
		c.CLI = false
	}
	return c
}

func genC03(t *rapid.T) c03Case {
	if oneIn(t, "bulk", 150) {
		return genC03Bulk(t)
	}
	maxW := 40
	if thorough() {
		maxW = 300
	}
	w := rapid.IntRange(1, maxW).Draw(t, "width")
	sc := sizeClass(t, "c03")
	if sc == 2 {
		w = rapid.SampledFrom([]int{4095, 4096, 4097, 5000, 8193, 9000, 12000}).Draw(t, "longWidth")
	}
	c := c03Case{HardGaps: rapid.Bool().Draw(t, "hardGaps")}
	refSeq := genAlnSeq(t, w, "refSym")
	c.Ref = FaRec{ID: "ref", Desc: genDesc(t, "refDesc"), Seq: randomCase(t, refSeq, "refCase")}
	n := rapid.IntRange(1, 8).Draw(t, "nrec")
	if sc == 1 {
		n = rapid.IntRange(60, 140).Draw(t, "nrecMany")
	}
	for i := 0; i < n; i++ {
		var seq string
		if sc == 2 && rapid.IntRange(0, 2).Draw(t, "divergent") == 0 {
			// certainly different at every column: the output row of this record grows beyond 64 KiB for w >= ~9000
			b := []byte(strings.ToUpper(refSeq))
			for j := range b {
				if isACGT(b[j]) {
					b[j] = transitionOf(b[j])
				} else {
					b[j] = 'A'
				}
			}
			c.Recs = append(c.Recs, FaRec{ID: genID(t, i, "id"), Seq: string(b)})
			continue
		}
		if sc != 0 || rapid.IntRange(0, 2).Draw(t, "derive") > 0 {
			// derived from the reference with a few changes: realistic, few SNPs
			b := []byte(strings.ToUpper(refSeq))
			k := rapid.IntRange(0, 4).Draw(t, "nchanges")
			for j := 0; j < k; j++ {
				b[rapid.IntRange(0, w-1).Draw(t, "chpos")] = alpha17[rapid.IntRange(0, 16).Draw(t, "chsym")]
			}
			seq = string(b)
		} else {
			seq = genAlnSeq(t, w, "sym")
		}
		c.Recs = append(c.Recs, FaRec{ID: genID(t, i, "id"), Desc: genDesc(t, "desc"), Seq: randomCase(t, seq, "case")})
	}
	c.RefLay = genLayout(t, w)
	c.AlnLay = genLayout(t, w)
	c.CLI = rapid.IntRange(0, 29).Draw(t, "cli") == 0
	return c
}

func TestC03(t *testing.T) {
	c03Chromosome = true
	// exhaustive part: every symbol pair x gap mode x letter-case combination x column
	n := runEnumerated(t, "C03", func(yield func(c03Case) bool) {
		for _, hg := range []bool{false, true} {
			for i := 0; i < 17; i++ {
				for j := 0; j < 17; j++ {
					for cc := 0; cc < 4; cc++ {
						for col := 0; col < 3; col++ {
							r, q := alpha17[i], alpha17[j]
							if cc&1 != 0 {
								r = lower(r)
							}
							if cc&2 != 0 {
								q = lower(q)
							}
							rs, qs := []byte("ACG"), []byte("ACG")
							rs[col], qs[col] = r, q
							c := c03Case{Ref: FaRec{ID: "ref", Seq: string(rs)}, Recs: []FaRec{{ID: "q", Seq: string(qs)}},
								RefLay: plainLayout(), AlnLay: plainLayout(), HardGaps: hg}
							if !yield(c) {
								return
							}
						}
					}
				}
			}
		}
	}, checkC03)
	stats.Extra["exhaustive_cases"] = n
	stats.Extra["exhaustive"] = true
	if t.Failed() {
		return
	}
	runProp(t, "C03", genC03, checkC03)
}
