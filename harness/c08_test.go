package harness

// C08 — updown topranking bins, ranks and limits neighbours exactly as specified.
// The oracle is computed from the raw sequences (not from SNP lists).

import (
	"bytes"
	"fmt"
	"math"
	"sort"
	"strconv"
	"strings"
	"testing"

	"github.com/virus-evolution/gofasta/pkg/updown"
	"pgregory.net/rapid"
)

type udOpts struct {
	SizeTotal int      `json:"size_total"`
	SizeUp    int      `json:"size_up"`
	SizeDown  int      `json:"size_down"`
	SizeSide  int      `json:"size_side"`
	SizeSame  int      `json:"size_same"`
	DistAll   int      `json:"dist_all"`
	DistUp    int      `json:"dist_up"`
	DistDown  int      `json:"dist_down"`
	DistSide  int      `json:"dist_side"`
	DistPush  int      `json:"dist_push"`
	NoFill    bool     `json:"no_fill"`
	ThreshP   float32  `json:"threshold_pair"`
	ThreshT   int      `json:"threshold_target"`
	Ignore    []string `json:"ignore"`
	Table     bool     `json:"table"`
}

type c08Case struct {
	Ref     string  `json:"ref"`
	Queries []FaRec `json:"queries"`
	Targets []FaRec `json:"targets"`
	Opts    udOpts  `json:"opts"`
	Synth   bool    `json:"synthetic,omitempty"` // bounded-exhaustive allocation arm
	CLI     bool    `json:"cli,omitempty"`
	SlowIdx int     `json:"slow_idx,omitempty"`   // C09: index+1 of a target record whose worker is held back (0 = none)
	QCSV    bool    `json:"query_csv,omitempty"`  // C08: give --query as the updown-list CSV of the same alignment
	TCSV    bool    `json:"target_csv,omitempty"` // C08: give --target as CSV
}

const (
	binSame = iota
	binUp
	binDown
	binSide
)

var binNames = []string{"same", "up", "down", "side"}

type udCand struct {
	idx  int
	id   string
	dist int
	amb  int
}

func ambCountOf(s string) int {
	n := 0
	for i := 0; i < len(s); i++ {
		if !isACGT(s[i]) {
			n++
		}
	}
	return n
}

// udAmbShare: the pair's ambiguous consequential sites and all its consequential sites (the two numbers --threshold-pair compares).
func udAmbShare(ref, q, t string) (amb, sum int) {
	for i := 0; i < len(ref); i++ {
		r, a, b := upper(ref[i]), upper(q[i]), upper(t[i])
		if isACGT(a) && a != r { // a query SNP: ambiguous in the target, shared, or the query's own
			sum++
			if !isACGT(b) {
				amb++
			}
		}
		if isACGT(b) && b != r && a != b { // a target SNP the query does not share
			sum++
			if !isACGT(a) {
				amb++
			}
		}
	}
	return
}

// udClassify: bin, distance and whether the pair passes the pairwise ambiguity threshold.
func udClassify(ref, q, t string, thresh float32) (bin, dist int, pass bool) {
	qonly, tonly, shared, amb := 0, 0, 0, 0
	for i := 0; i < len(ref); i++ {
		r, a, b := upper(ref[i]), upper(q[i]), upper(t[i])
		qSNP := isACGT(a) && a != r
		tSNP := isACGT(b) && b != r
		if qSNP {
			switch {
			case !isACGT(b):
				amb++
			case b == a:
				shared++
			default:
				qonly++
			}
		}
		if tSNP {
			switch {
			case !isACGT(a):
				amb++
			case a == b:
				// counted once, above
			default:
				tonly++
			}
		}
		if isACGT(a) && isACGT(b) && a != b {
			dist++
		}
	}
	sum := qonly + tonly + shared + amb
	if float32(amb)/float32(sum) > thresh { // NaN (0/0) compares false: passes
		return 0, 0, false
	}
	switch {
	case qonly == 0 && tonly == 0:
		bin = binSame
	case qonly > 0 && tonly == 0:
		bin = binUp
	case qonly == 0 && tonly > 0:
		bin = binDown
	default:
		bin = binSide
	}
	return bin, dist, true
}

// udCandidates: per bin, the candidates in the documented order (distance, fewer ambiguities, file order).
func udCandidates(c c08Case, q FaRec) [4][]udCand {
	var bins [4][]udCand
	for i, t := range c.Targets {
		if contains(c.Opts.Ignore, t.ID) {
			continue
		}
		ac := ambCountOf(t.Seq)
		if ac > c.Opts.ThreshT {
			continue
		}
		b, d, ok := udClassify(c.Ref, q.Seq, t.Seq, c.Opts.ThreshP)
		if !ok {
			continue
		}
		bins[b] = append(bins[b], udCand{idx: i, id: t.ID, dist: d, amb: ac})
	}
	for b := range bins {
		sort.SliceStable(bins[b], func(i, j int) bool {
			x, y := bins[b][i], bins[b][j]
			if x.dist != y.dist {
				return x.dist < y.dist
			}
			if x.amb != y.amb {
				return x.amb < y.amb
			}
			return x.idx < y.idx
		})
	}
	return bins
}

const udInf = math.MaxInt32

// requested sizes / dist limits as documented by the flags
func (o udOpts) sizes() (req [4]int, limit int, sizeTotalMode bool) {
	switch {
	case o.SizeTotal > 0:
		f := o.SizeTotal / 4
		return [4]int{f, f, f, f}, o.SizeTotal, true
	case o.SizeUp != 0 || o.SizeDown != 0 || o.SizeSide != 0 || o.SizeSame != 0:
		req = [4]int{o.SizeSame, o.SizeUp, o.SizeDown, o.SizeSide}
		return req, req[0] + req[1] + req[2] + req[3], false
	}
	return [4]int{udInf, udInf, udInf, udInf}, udInf, false
}

func (o udOpts) dists() [4]int {
	switch {
	case o.DistAll > 0:
		return [4]int{0, o.DistAll, o.DistAll, o.DistAll}
	case o.DistUp != 0 || o.DistDown != 0 || o.DistSide != 0:
		return [4]int{0, o.DistUp, o.DistDown, o.DistSide}
	}
	return [4]int{udInf, udInf, udInf, udInf}
}

func runTopRanking(c c08Case, qType, tType string, qTxt, tTxt string) (string, error) {
	var out bytes.Buffer
	o := c.Opts
	refTxt := ">ref\n" + c.Ref + "\n"
	err := mustRun("updown.TopRanking", func() error {
		return updown.TopRanking(strings.NewReader(qTxt), strings.NewReader(tTxt), strings.NewReader(refTxt), &out, o.Table, qType, tType, o.Ignore,
			o.SizeTotal, o.SizeUp, o.SizeDown, o.SizeSide, o.SizeSame, o.DistAll, o.DistUp, o.DistDown, o.DistSide, o.ThreshP, o.ThreshT, o.NoFill, o.DistPush)
	})
	return out.String(), err
}

type udRow struct {
	bins  [4][]string
	dists [4][]int // table form only
}

func parseTopRanking(out string, table bool, queries []FaRec) (map[string]*udRow, error) {
	lines := splitLines(out)
	res := map[string]*udRow{}
	for _, q := range queries {
		res[q.ID] = &udRow{}
	}
	if table {
		if len(lines) == 0 || lines[0] != "query,direction,distance,target" {
			return nil, fmt.Errorf("bad table header %q", trunc(out, 100))
		}
		qi := 0
		lastBin := -1
		for _, l := range lines[1:] {
			f := strings.Split(l, ",")
			if len(f) != 4 {
				return nil, fmt.Errorf("bad table row %q", l)
			}
			for qi < len(queries) && queries[qi].ID != f[0] {
				qi++
				lastBin = -1
			}
			if qi == len(queries) {
				return nil, fmt.Errorf("table rows not in query-file order at %q", l)
			}
			b := -1
			for i, n := range binNames {
				if n == f[1] {
					b = i
				}
			}
			if b < 0 || b < lastBin {
				return nil, fmt.Errorf("bad or out-of-order direction in %q", l)
			}
			lastBin = b
			d, err := strconv.Atoi(f[2])
			if err != nil {
				return nil, fmt.Errorf("bad distance in %q", l)
			}
			res[f[0]].bins[b] = append(res[f[0]].bins[b], f[3])
			res[f[0]].dists[b] = append(res[f[0]].dists[b], d)
		}
		return res, nil
	}
	if len(lines) != len(queries)+1 || lines[0] != "query,closestsame,closestup,closestdown,closestside" {
		return nil, fmt.Errorf("expected header + %d rows, got %q", len(queries), trunc(out, 300))
	}
	for i, l := range lines[1:] {
		f := strings.Split(l, ",")
		if len(f) != 5 || f[0] != queries[i].ID {
			return nil, fmt.Errorf("row %d is %q; want query %s with 4 bins", i, l, queries[i].ID)
		}
		for b := 0; b < 4; b++ {
			if f[b+1] != "" {
				res[f[0]].bins[b] = strings.Split(f[b+1], ";")
			}
		}
	}
	return res, nil
}

func checkC08(c c08Case, o *Obs) error {
	qTxt, tTxt := fa(c.Queries...), fa(c.Targets...)
	qType, tType := "fasta", "fasta"
	qIn, tIn := qTxt, tTxt
	if c.QCSV {
		csv, err := udListCSV(c.Ref, c.Queries)
		if err != nil {
			return err
		}
		qType, qIn = "csv", csv
	}
	if c.TCSV {
		csv, err := udListCSV(c.Ref, c.Targets)
		if err != nil {
			return err
		}
		tType, tIn = "csv", csv
	}
	o.Label("inputs:" + qType + "/" + tType)
	out, err := runTopRanking(c, qType, tType, qIn, tIn)
	if err != nil {
		return err
	}
	rows, err := parseTopRanking(out, c.Opts.Table, c.Queries)
	if err != nil {
		return err
	}
	if err := c08Validate(c, rows, out, o); err != nil {
		return err
	}
	if c.CLI && gofastaBin() != "" {
		dir, cleanup := caseDir("c08cli")
		defer cleanup()
		args := append([]string{"updown", "topranking", "-q", writeFile(dir, "q.fasta", qTxt), "-t", writeFile(dir, "t.fa", tTxt), "-r", writeFile(dir, "ref.fasta", ">ref\n"+c.Ref+"\n")}, c.Opts.cliFlags(dir)...)
		if err := cliAgree(o, "updown topranking", out, args...); err != nil {
			return err
		}
	}
	return nil
}

// cliFlags renders the options as command-line flags (zero values are the flags' defaults and are omitted).
func (o udOpts) cliFlags(dir string) []string {
	var a []string
	add := func(name string, v int) {
		if v != 0 {
			a = append(a, name, strconv.Itoa(v))
		}
	}
	add("--size-total", o.SizeTotal)
	add("--size-up", o.SizeUp)
	add("--size-down", o.SizeDown)
	add("--size-side", o.SizeSide)
	add("--size-same", o.SizeSame)
	add("--dist-all", o.DistAll)
	add("--dist-up", o.DistUp)
	add("--dist-down", o.DistDown)
	add("--dist-side", o.DistSide)
	add("--dist-push", o.DistPush)
	if o.NoFill {
		a = append(a, "--no-fill")
	}
	if o.Table {
		a = append(a, "--table")
	}
	a = append(a, "--threshold-pair", strconv.FormatFloat(float64(o.ThreshP), 'g', -1, 32), "--threshold-target", strconv.Itoa(o.ThreshT))
	if len(o.Ignore) > 0 {
		a = append(a, "--ignore", writeFile(dir, "ignore.txt", strings.Join(o.Ignore, "\n")+"\n"))
	}
	return a
}

func c08Validate(c c08Case, rows map[string]*udRow, out string, o *Obs) error {
	op := c.Opts
	req, limit, sizeTotalMode := op.sizes()
	dl := op.dists()
	o.LabelIf(op.Table, "table")
	o.LabelIf(op.DistPush > 0, "dist-push")
	o.LabelIf(op.SizeTotal > 0, "size-total")
	o.LabelIf(op.ThreshP != 0 && op.ThreshP != 0.1 && op.ThreshP != 0.25 && op.ThreshP != 0.5 && op.ThreshP != 1, "threshold-pair-equals-a-pair-share")
	o.LabelIf(op.SizeTotal > 0 && (op.SizeUp != 0 || op.SizeDown != 0 || op.SizeSame != 0 || op.SizeSide != 0), "size-total-overrides-per-bin-sizes")
	o.LabelIf(op.DistAll > 0 && (op.DistUp != 0 || op.DistDown != 0 || op.DistSide != 0), "dist-all-overrides-per-bin-dists")
	o.LabelIf(limit != udInf && op.SizeTotal == 0, "size-per-bin")
	o.LabelIf(dl[1] != udInf, "dist-limits")
	o.LabelIf(op.NoFill, "no-fill")
	o.LabelIf(len(op.Ignore) > 0, "ignore")
	o.LabelIf(len(c.Ref) > 64, "wide-alignment")
	nt := false
	for _, q := range c.Queries {
		cands := udCandidates(c, q)
		row := rows[q.ID]
		describe := func() string {
			var sb strings.Builder
			for b := 0; b < 4; b++ {
				sb.WriteString(fmt.Sprintf("  %s: returned %v; candidates in documented order:", binNames[b], row.bins[b]))
				for _, x := range cands[b] {
					sb.WriteString(fmt.Sprintf(" %s(d=%d,amb=%d)", x.id, x.dist, x.amb))
				}
				sb.WriteString("\n")
			}
			return fmt.Sprintf("query %s, options %+v\nref %s\nq   %s\n%s", q.ID, op, c.Ref, q.Seq, sb.String())
		}
		// multiple hit somewhere?
		for _, t := range c.Targets {
			for i := 0; i < len(c.Ref); i++ {
				a, b, r := upper(q.Seq[i]), upper(t.Seq[i]), upper(c.Ref[i])
				if isACGT(a) && isACGT(b) && a != r && b != r && a != b {
					o.Label("multiple-hit")
					nt = true
				}
			}
			if _, _, ok := udClassify(c.Ref, q.Seq, t.Seq, op.ThreshP); !ok {
				o.Label("pair-threshold-binds")
				nt = true
			}
			if ambCountOf(t.Seq) > op.ThreshT {
				o.Label("target-threshold-binds")
				nt = true
			}
		}
		if op.DistPush > 0 {
			for b := 0; b < 4; b++ {
				var want []udCand
				if b == binSame {
					want = cands[b] // every identical target; order not specified by the statement
					got := append([]string(nil), row.bins[b]...)
					var w []string
					for _, x := range want {
						w = append(w, x.id)
					}
					sort.Strings(got)
					sort.Strings(w)
					if strings.Join(got, ";") != strings.Join(w, ";") {
						return fmt.Errorf("--dist-push %d: 'same' must hold every identical target\n%s", op.DistPush, describe())
					}
					continue
				}
				seen := map[int]bool{}
				for _, x := range cands[b] {
					if !seen[x.dist] && len(seen) == op.DistPush {
						break
					}
					seen[x.dist] = true
					want = append(want, x)
				}
				if len(row.bins[b]) != len(want) {
					return fmt.Errorf("--dist-push %d: bin %s must hold exactly the targets at its %d smallest occurring distances\n%s", op.DistPush, binNames[b], op.DistPush, describe())
				}
				for i, x := range want {
					if row.bins[b][i] != x.id {
						return fmt.Errorf("--dist-push %d: bin %s order/content differs at #%d\n%s", op.DistPush, binNames[b], i, describe())
					}
				}
				o.LabelIf(len(cands[b]) > len(want), "dist-push-cuts")
				if len(cands[b]) > len(want) {
					nt = true
				}
			}
			continue
		}
		// candidates within the bin's distance limit
		var avail [4][]udCand
		supply := 0
		for b := 0; b < 4; b++ {
			for _, x := range cands[b] {
				if x.dist <= dl[b] {
					avail[b] = append(avail[b], x)
				}
			}
			supply += len(avail[b])
			o.LabelIf(len(avail[b]) < len(cands[b]), "dist-limit-cuts")
		}
		total := 0
		var got [4]int
		for b := 0; b < 4; b++ {
			got[b] = len(row.bins[b])
			total += got[b]
			if got[b] > len(avail[b]) {
				return fmt.Errorf("bin %s holds %d targets but only %d qualify (threshold/ignore/bin/distance limit)\n%s", binNames[b], got[b], len(avail[b]), describe())
			}
			// each bin is a prefix of its candidates in the documented order
			for i := 0; i < got[b]; i++ {
				if row.bins[b][i] != avail[b][i].id {
					return fmt.Errorf("bin %s is not a prefix of its candidates ordered by distance, ambiguities, file order (position %d: %s, expected %s)\n%s", binNames[b], i, row.bins[b][i], avail[b][i].id, describe())
				}
				if row.dists[b] != nil && row.dists[b][i] != avail[b][i].dist {
					return fmt.Errorf("table distance of %s is %d; both-A/C/G/T differing columns: %d\n%s", row.bins[b][i], row.dists[b][i], avail[b][i].dist, describe())
				}
			}
		}
		if limit == udInf {
			for b := 0; b < 4; b++ {
				if got[b] != len(avail[b]) {
					return fmt.Errorf("no size option: bin %s must hold all %d qualifying targets, holds %d\n%s", binNames[b], len(avail[b]), got[b], describe())
				}
			}
			continue
		}
		if total > limit {
			return fmt.Errorf("%d targets returned, size limit %d\n%s", total, limit, describe())
		}
		var base [4]int
		short, spareAny := false, false
		for b := 0; b < 4; b++ {
			base[b] = req[b]
			if len(avail[b]) < base[b] {
				base[b] = len(avail[b])
				short = true
			}
			if len(avail[b]) > req[b] {
				spareAny = true
			}
			if got[b] < base[b] {
				return fmt.Errorf("bin %s holds %d; requested %d, available %d\n%s", binNames[b], got[b], req[b], len(avail[b]), describe())
			}
		}
		if short && spareAny && !op.NoFill {
			nt = true
			o.Label("fill-happens")
		}
		if op.NoFill && !sizeTotalMode {
			for b := 0; b < 4; b++ {
				if got[b] != base[b] {
					return fmt.Errorf("--no-fill: bin %s must hold min(requested %d, available %d), holds %d\n%s", binNames[b], req[b], len(avail[b]), got[b], describe())
				}
			}
			continue
		}
		if op.NoFill && sizeTotalMode {
			// size-total with no-fill: each bin at most its share; shares sum to T (remainder bin unspecified)
			for b := 0; b < 4; b++ {
				if got[b] > req[b]+limit-4*req[b] {
					return fmt.Errorf("--no-fill --size-total %d: bin %s holds %d\n%s", limit, binNames[b], got[b], describe())
				}
			}
			continue
		}
		wantTotal := limit
		if supply < wantTotal {
			wantTotal = supply
		}
		if total != wantTotal {
			return fmt.Errorf("%d targets returned; limit %d, supply %d: shortfalls must be made up until the total or the supply is exhausted\n%s", total, limit, supply, describe())
		}
		if !sizeTotalMode {
			// evenness of the extras: no bin with spare candidates is two or more behind another bin's extra
			for i := 0; i < 4; i++ {
				for j := 0; j < 4; j++ {
					ei, ej := got[i]-base[i], got[j]-base[j]
					spare := len(avail[i]) - base[i]
					m := ej - 1
					if spare < m {
						m = spare
					}
					if ei < m {
						return fmt.Errorf("shortfall not made up evenly: bin %s got %d extra (spare %d) while bin %s got %d extra\n%s", binNames[i], ei, spare, binNames[j], ej, describe())
					}
				}
			}
		}
	}
	if nt {
		o.NonTrivial()
	}
	return nil
}

// ---- generator ---------------------------------------------------------------------------------------

type udSNP struct {
	pos    int
	allele byte
}

func genUDSeq(t *rapid.T, ref string, pool []udSNP, parent string) string {
	b := []byte(ref)
	if parent != "" {
		b = []byte(parent)
	}
	for _, s := range pool {
		if rapid.IntRange(0, 2).Draw(t, "takeSNP") == 0 {
			b[s.pos] = s.allele
		}
	}
	// ambiguity: sometimes over SNP positions
	switch rapid.IntRange(0, 5).Draw(t, "ambKind") {
	case 0:
		if len(pool) > 0 {
			s := pool[rapid.IntRange(0, len(pool)-1).Draw(t, "ambOverSNP")]
			b[s.pos] = rapid.SampledFrom([]byte{'N', '-', 'R', 'Y', '?'}).Draw(t, "ambSym")
		}
	case 1:
		p := rapid.IntRange(0, len(b)-1).Draw(t, "tractPos")
		n := rapid.IntRange(1, 4).Draw(t, "tractLen")
		for i := p; i < p+n && i < len(b); i++ {
			b[i] = 'N'
		}
	}
	return string(b)
}

func genUDOpts(t *rapid.T, targets []FaRec, width int) udOpts {
	o := udOpts{ThreshP: rapid.SampledFrom([]float32{0, 0.1, 0.1, 0.25, 0.5, 1}).Draw(t, "threshPair")}
	o.ThreshT = rapid.SampledFrom([]int{10000, 10000, 0, 1, 2, width}).Draw(t, "threshTarget")
	o.Table = rapid.Bool().Draw(t, "table")
	if rapid.IntRange(0, 3).Draw(t, "useIgnore") == 0 && len(targets) > 0 {
		for k := rapid.IntRange(1, 2).Draw(t, "nIgnore"); k > 0; k-- {
			o.Ignore = append(o.Ignore, targets[rapid.IntRange(0, len(targets)-1).Draw(t, "ignoreIdx")].ID)
		}
	}
	switch rapid.IntRange(0, 9).Draw(t, "optKind") {
	case 0, 1: // dist-push only
		o.DistPush = rapid.IntRange(1, 3).Draw(t, "distPush")
		return o
	case 2: // dist only
	case 3, 4:
		o.SizeTotal = rapid.IntRange(1, 9).Draw(t, "sizeTotal")
		if rapid.IntRange(0, 2).Draw(t, "overriddenSizes") == 0 {
			// legal: --size-total overrides the per-bin sizes (with a warning on stderr)
			o.SizeUp = rapid.IntRange(0, 3).Draw(t, "sizeUp")
			o.SizeDown = rapid.IntRange(0, 3).Draw(t, "sizeDown")
			o.SizeSame = rapid.IntRange(0, 3).Draw(t, "sizeSame")
		}
	default:
		o.SizeUp = rapid.IntRange(0, 3).Draw(t, "sizeUp")
		o.SizeDown = rapid.IntRange(0, 3).Draw(t, "sizeDown")
		o.SizeSide = rapid.IntRange(0, 3).Draw(t, "sizeSide")
		o.SizeSame = rapid.IntRange(0, 3).Draw(t, "sizeSame")
	}
	switch rapid.IntRange(0, 3).Draw(t, "distKind") {
	case 0:
		o.DistAll = rapid.IntRange(1, 3).Draw(t, "distAll")
		if rapid.IntRange(0, 2).Draw(t, "overriddenDists") == 0 {
			// legal: --dist-all overrides the per-bin distances (with a warning on stderr)
			o.DistUp = rapid.IntRange(0, 3).Draw(t, "distUp")
			o.DistSide = rapid.IntRange(0, 3).Draw(t, "distSide")
		}
	case 1:
		o.DistUp = rapid.IntRange(0, 3).Draw(t, "distUp")
		o.DistDown = rapid.IntRange(0, 3).Draw(t, "distDown")
		o.DistSide = rapid.IntRange(0, 3).Draw(t, "distSide")
	}
	o.NoFill = rapid.IntRange(0, 2).Draw(t, "noFill") == 0
	// at least one size/dist option is required (its absence is C18's business)
	if o.SizeTotal == 0 && o.SizeUp == 0 && o.SizeDown == 0 && o.SizeSide == 0 && o.SizeSame == 0 && o.DistAll == 0 && o.DistUp == 0 && o.DistDown == 0 && o.DistSide == 0 {
		o.DistAll = 2
	}
	return o
}

// hugeRows enables the >64 KiB row class (set by the C09 generator only: the csv path is what it is about).
var hugeRows bool

func genUDInput(t *rapid.T, minQueries int, iupacRef bool) (ref string, queries, targets []FaRec) {
	// names as they occur: plain, database style with separators, or starting with a character that means something in other
	// file formats ('#'); never a comma, white space, double quote or semicolon (the list format has no escaping and topranking joins names with ";")
	namePrefixes := []string{"", "", "", "#", "hCoV-19/x/", "EPI_ISL|", "'"}
	qPrefix := rapid.SampledFrom(namePrefixes).Draw(t, "queryNamePrefix")
	tPrefix := rapid.SampledFrom(namePrefixes).Draw(t, "targetNamePrefix")
	w := rapid.IntRange(6, 30).Draw(t, "width")
	wide := rapid.IntRange(0, 7).Draw(t, "wide") == 0
	if wide {
		// wide alignments: room for dozens of separate ambiguity tracts per sequence
		w = rapid.IntRange(66, 240).Draw(t, "wideWidth")
	}
	if hugeRows && rapid.IntRange(0, 2499).Draw(t, "hugeRow") == 0 {
		// very wide and very divergent: the updown-list row of a sequence grows beyond 64 KiB
		wide = true
		w = rapid.SampledFrom([]int{11000, 12000, 13000}).Draw(t, "hugeWidth")
	}
	ref = genACGT(t, w, "refBase")
	if iupacRef && rapid.IntRange(0, 2).Draw(t, "refIupac") == 0 {
		b := []byte(ref)
		for k := rapid.IntRange(1, 3).Draw(t, "nRefAmb"); k > 0; k-- {
			b[rapid.IntRange(0, w-1).Draw(t, "refAmbPos")] = alpha17[4+rapid.IntRange(0, 12).Draw(t, "refAmbSym")]
		}
		ref = string(b)
	}
	var pool []udSNP
	for k := rapid.IntRange(2, 6).Draw(t, "poolSize"); k > 0; k-- {
		p := rapid.IntRange(0, w-1).Draw(t, "snpPos")
		a := "ACGT"[rapid.IntRange(0, 3).Draw(t, "snpAllele")]
		if a != ref[p] {
			pool = append(pool, udSNP{p, a})
		}
	}
	nq := rapid.IntRange(minQueries, 3).Draw(t, "nq")
	for i := 0; i < nq; i++ {
		queries = append(queries, FaRec{ID: fmt.Sprintf("%sq%d", qPrefix, i), Seq: genUDSeq(t, ref, pool, "")})
	}
	nt := rapid.IntRange(1, 20).Draw(t, "nt")
	if w > 10000 {
		// every other column a SNP in some sequences (the pepper step below adds the ambiguity tracts)
		nt = rapid.IntRange(2, 3).Draw(t, "ntHuge")
		for i := range queries {
			if rapid.Bool().Draw(t, "divergentQuery") {
				b := []byte(queries[i].Seq)
				for p := 0; p < w; p += 2 {
					b[p] = transitionOf(ref[p])
				}
				queries[i].Seq = string(b)
			}
		}
	}
	for i := 0; i < nt; i++ {
		parent := ""
		switch rapid.IntRange(0, 3).Draw(t, "parent") {
		case 0:
			parent = queries[rapid.IntRange(0, nq-1).Draw(t, "parentQ")].Seq // identical or child of a query
		case 1:
			if len(targets) > 0 {
				parent = targets[rapid.IntRange(0, len(targets)-1).Draw(t, "parentT")].Seq
			}
		}
		seq := genUDSeq(t, ref, pool, parent)
		if parent != "" && rapid.IntRange(0, 2).Draw(t, "exactCopy") == 0 {
			seq = parent
		}
		if w > 10000 && i%2 == 0 {
			b := []byte(seq)
			for p := i % 3; p < w; p += 2 {
				if isACGT(ref[p]) {
					b[p] = transitionOf(ref[p])
				}
			}
			seq = string(b)
		}
		targets = append(targets, FaRec{ID: fmt.Sprintf("%st%d", tPrefix, i), Seq: seq})
	}
	if wide {
		// many short ambiguity tracts (every 2nd / 3rd column) in some sequences, with SNPs of the others
		// falling on the first, last and only column of a tract
		pepper := func(s string) string {
			b := []byte(s)
			step := rapid.IntRange(2, 3).Draw(t, "tractStep")
			tl := rapid.IntRange(1, step-1).Draw(t, "tractLen")
			off := rapid.IntRange(0, step-1).Draw(t, "tractOff")
			for i := off; i < len(b); i += step {
				for k := 0; k < tl && i+k < len(b); k++ {
					b[i+k] = rapid.SampledFrom([]byte{'N', 'N', '-', 'R'}).Draw(t, "tractSym")
				}
			}
			return string(b)
		}
		for i := range targets {
			if rapid.IntRange(0, 2).Draw(t, "pepperTarget") == 0 {
				targets[i].Seq = pepper(targets[i].Seq)
			}
		}
		for i := range queries {
			if rapid.IntRange(0, 3).Draw(t, "pepperQuery") == 0 {
				queries[i].Seq = pepper(queries[i].Seq)
			}
		}
	}
	// a record whose name is a word of the list format's own header
	if rapid.IntRange(0, 5).Draw(t, "headerWordName") == 0 {
		w := rapid.SampledFrom([]string{"query", "SNPs", "ambiguities"}).Draw(t, "headerWord")
		if rapid.Bool().Draw(t, "headerWordInQueries") {
			queries[rapid.IntRange(0, len(queries)-1).Draw(t, "headerWordIdx")].ID = w
		} else if len(targets) > 0 {
			targets[rapid.IntRange(0, len(targets)-1).Draw(t, "headerWordIdx")].ID = w
		}
	}
	return
}

func genC08(t *rapid.T) c08Case {
	c := c08Case{}
	c.Ref, c.Queries, c.Targets = genUDInput(t, 1, false)
	shareNames(t, c.Queries, c.Targets)
	c.Opts = genUDOpts(t, c.Targets, len(c.Ref))
	if len(c.Targets) > 0 && rapid.IntRange(0, 3).Draw(t, "thresholdOnAPair") == 0 {
		// --threshold-pair exactly equal to the ambiguous share of one of the pairs ("up to this proportion is allowed")
		q := c.Queries[rapid.IntRange(0, len(c.Queries)-1).Draw(t, "tieQuery")]
		tg := c.Targets[rapid.IntRange(0, len(c.Targets)-1).Draw(t, "tieTarget")]
		if kn := rapid.SampledFrom([][2]int{{0, 0}, {5, 6}, {7, 10}, {9, 10}, {5, 12}, {7, 12}, {1, 3}, {3, 7}}).Draw(t, "tieShape"); kn[1] > 0 && len(c.Ref) >= kn[1] && strings.Trim(strings.ToUpper(c.Ref[:kn[1]]), "ACGT") == "" {
			// a pair built for the purpose: n SNPs in the query, k of them under N in the target
			qb := []byte(strings.ToUpper(c.Ref))
			for i := 0; i < kn[1]; i++ {
				qb[i] = transitionOf(qb[i])
			}
			tb := append([]byte(nil), qb...)
			for i := 0; i < kn[0]; i++ {
				tb[i] = 'N'
			}
			q, tg = FaRec{ID: "tieq", Seq: string(qb)}, FaRec{ID: "tiet", Seq: string(tb)}
			c.Queries = append(c.Queries, q)
			c.Targets = append(c.Targets, tg)
		}
		if amb, sum := udAmbShare(c.Ref, q.Seq, tg.Seq); amb > 0 && sum > 0 {
			c.Opts.ThreshP = float32(amb) / float32(sum)
		}
	}
	c.CLI = rapid.IntRange(0, 19).Draw(t, "cli") == 0
	if rapid.IntRange(0, 2).Draw(t, "mixedInputs") == 0 {
		c.QCSV = rapid.Bool().Draw(t, "queryCSV")
		c.TCSV = rapid.Bool().Draw(t, "targetCSV")
		c.CLI = false // the command-line arm writes fasta files
	}
	return c
}

// synthetic allocation case: k identical targets per bin
func synthCase(supply, req [4]int, nofill bool) c08Case {
	ref := "AAAAAAAAAA"
	q := "CAAAAAAAAA"
	seqs := [4]string{"CAAAAAAAAA", "AAAAAAAAAA", "CGAAAAAAAA", "AATAAAAAAA"}
	c := c08Case{Ref: ref, Queries: []FaRec{{ID: "q", Seq: q}}, Synth: true}
	// interleave the bins in file order
	for k := 0; k < 3; k++ {
		for b := 0; b < 4; b++ {
			if k < supply[b] {
				c.Targets = append(c.Targets, FaRec{ID: fmt.Sprintf("%s%d", binNames[b], k), Seq: seqs[b]})
			}
		}
	}
	c.Opts = udOpts{SizeSame: req[0], SizeUp: req[1], SizeDown: req[2], SizeSide: req[3], NoFill: nofill, ThreshP: 0.1, ThreshT: 10000}
	return c
}

func TestC08(t *testing.T) {
	// bounded-exhaustive arm: supplies x requested sizes in 0..3 x no-fill (allocation arithmetic)
	shard, _ := strconv.Atoi(shardTag())
	nsh, _ := strconv.Atoi(getenvDefault("VERIF_NSHARDS", "1"))
	stride := 1
	if !thorough() {
		stride = 8
	}
	seed, _ := strconv.Atoi(getenvDefault("VERIF_SEED", "0"))
	n := runEnumerated(t, "C08", func(yield func(c08Case) bool) {
		i := 0
		for s := 0; s < 256; s++ {
			for r := 1; r < 256; r++ { // r=0: no size option at all is refused (C18)
				for nf := 0; nf < 2; nf++ {
					i++
					if i%nsh != shard%nsh {
						continue
					}
					if (i/nsh+seed)%stride != 0 {
						continue
					}
					sup := [4]int{s & 3, (s >> 2) & 3, (s >> 4) & 3, (s >> 6) & 3}
					if sup[0]+sup[1]+sup[2]+sup[3] == 0 {
						continue // an empty target file is invalid input
					}
					rq := [4]int{r & 3, (r >> 2) & 3, (r >> 4) & 3, (r >> 6) & 3}
					if !yield(synthCase(sup, rq, nf == 1)) {
						return
					}
				}
			}
		}
	}, checkC08)
	stats.Extra["allocation_points_this_shard"] = n
	stats.Extra["allocation_space"] = "supplies 0..3 ^4 x requested 0..3 ^4 x no-fill; all points in thorough (split over shards), 1/8 sample in quick"
	if t.Failed() {
		return
	}
	runProp(t, "C08", genC08, checkC08)
}
