package harness

// Process-level helper: run the gofasta binary built from the tree (VERIF_BIN).

import (
	"bytes"
	"context"
	"errors"
	"fmt"
	"os"
	"os/exec"
	"path/filepath"
	"strings"
	"syscall"
	"time"
)

type procResult struct {
	Stdout, Stderr string
	Exit           int
	TimedOut       bool
	Err            error
}

func gofastaBin() string { return os.Getenv("VERIF_BIN") }

func runBin(timeout time.Duration, stdin string, stdout *os.File, args ...string) procResult {
	return runBinEnv(timeout, stdin, stdout, nil, args...)
}

func runBinEnv(timeout time.Duration, stdin string, stdout *os.File, env []string, args ...string) procResult {
	ctx, cancel := context.WithTimeout(context.Background(), timeout)
	defer cancel()
	cmd := exec.CommandContext(ctx, gofastaBin(), args...)
	cmd.SysProcAttr = &syscall.SysProcAttr{Setpgid: true}
	cmd.Cancel = func() error { return syscall.Kill(-cmd.Process.Pid, syscall.SIGKILL) }
	cmd.WaitDelay = 2 * time.Second
	var so, se bytes.Buffer
	if stdout != nil {
		cmd.Stdout = stdout
	} else {
		cmd.Stdout = &so
	}
	cmd.Stderr = &se
	if stdin != "" {
		cmd.Stdin = strings.NewReader(stdin)
	}
	cmd.Env = append(append(os.Environ(), "GOTRACEBACK=single"), env...)
	err := cmd.Run()
	r := procResult{Stdout: so.String(), Stderr: se.String()}
	if ctx.Err() == context.DeadlineExceeded {
		r.TimedOut = true
		r.Exit = -1
		return r
	}
	if err != nil {
		var ee *exec.ExitError
		if errors.As(err, &ee) {
			r.Exit = ee.ExitCode()
		} else {
			r.Exit = -2
			r.Err = err
		}
	}
	return r
}

// caseDir makes a fresh scratch directory for one case; the caller removes it.
func caseDir(prefix string) (string, func()) {
	d, err := os.MkdirTemp(scratchDir(), prefix+"-*")
	if err != nil {
		panic(err)
	}
	return d, func() { os.RemoveAll(d) }
}

func writeFile(dir, name, content string) string {
	p := filepath.Join(dir, name)
	if err := os.WriteFile(p, []byte(content), 0o644); err != nil {
		panic(err)
	}
	return p
}

// cliAgree is the process-level arm of the in-process checks: the binary built from the tree is run with the
// command line equivalent to the library call, and its stdout must equal `want` — the library output that the
// caller has already validated against the model. It reaches the cobra layer (flag parsing, defaults, wiring)
// that the library-level check cannot see. No-op when the binary is not available.
func cliAgree(o *Obs, what string, want string, args ...string) error {
	return cliAgreeStdin(o, what, want, "", args...)
}

// cliAgreeStdin: as cliAgree, with the primary input piped to the binary's stdin (the documented default of
// `sam` sub-commands, `snps -q` and `updown list -q`).
func cliAgreeStdin(o *Obs, what string, want string, stdin string, args ...string) error {
	if gofastaBin() == "" {
		return nil
	}
	if stdin != "" {
		o.Label("cli-arm:stdin")
	}
	// one run in three writes to -o FILE instead of stdout, and FILE already exists with older, longer content (a re-run over the
	// previous result): the file must afterwards hold exactly the output. Chosen by a pure function of the case.
	outfile := ""
	if what != "sam toPairAlign" && !containsArg(args, "-o") && !containsArg(args, "--outfile") && (len(want)+len(args))%3 == 0 {
		f, err := os.CreateTemp(scratchDir(), "cliout-*.txt")
		if err == nil {
			f.WriteString(strings.Repeat("stale line from an earlier run, must not survive\n", len(want)/40+3))
			f.Close()
			outfile = f.Name()
			defer os.Remove(outfile)
			args = append(append([]string{}, args...), "-o", outfile)
			o.Label("cli-arm:existing-outfile")
		}
	}
	r := runBin(30*time.Second, stdin, nil, args...)
	if outfile != "" && !r.TimedOut && r.Exit == 0 {
		b, err := os.ReadFile(outfile)
		if err != nil {
			return fmt.Errorf("%s: -o %s was not written: %v", what, outfile, err)
		}
		if r.Stdout != "" {
			return fmt.Errorf("%s: with -o FILE the binary also wrote to stdout: %q", what, trunc(r.Stdout, 300))
		}
		r.Stdout = string(b)
	}
	stats.count("cli_runs", 1)
	o.Label("cli-arm")
	if r.TimedOut {
		return fmt.Errorf("%s: the binary did not terminate on valid input: gofasta %s", what, strings.Join(args, " "))
	}
	if r.Exit != 0 {
		return fmt.Errorf("%s: the binary exits %d on valid input: gofasta %s\nstderr: %s", what, r.Exit, strings.Join(args, " "), trunc(r.Stderr, 400))
	}
	if r.Stdout != want {
		return fmt.Errorf("%s: command-line run differs from the (model-checked) library result: gofasta %s\n%s\n cli: %q\n lib: %q", what, strings.Join(args, " "), firstDiff(r.Stdout, want), trunc(r.Stdout, 600), trunc(want, 600))
	}
	return nil
}

func containsArg(args []string, a string) bool {
	for _, x := range args {
		if x == a {
			return true
		}
	}
	return false
}
