package harness

// Process-level helper: run the gofasta binary built from the tree (VERIF_BIN).

import (
	"bytes"
	"context"
	"errors"
	"os"
	"os/exec"
	"path/filepath"
	"strings"
	"syscall"
	"time"
)

type procResult struct {
	Stdout, Stderr string
	Exit           int
	TimedOut       bool
	Err            error
}

func gofastaBin() string { return os.Getenv("VERIF_BIN") }

func runBin(timeout time.Duration, stdin string, stdout *os.File, args ...string) procResult {
	ctx, cancel := context.WithTimeout(context.Background(), timeout)
	defer cancel()
	cmd := exec.CommandContext(ctx, gofastaBin(), args...)
	cmd.SysProcAttr = &syscall.SysProcAttr{Setpgid: true}
	cmd.Cancel = func() error { return syscall.Kill(-cmd.Process.Pid, syscall.SIGKILL) }
	cmd.WaitDelay = 2 * time.Second
	var so, se bytes.Buffer
	if stdout != nil {
		cmd.Stdout = stdout
	} else {
		cmd.Stdout = &so
	}
	cmd.Stderr = &se
	if stdin != "" {
		cmd.Stdin = strings.NewReader(stdin)
	}
	cmd.Env = append(os.Environ(), "GOTRACEBACK=single")
	err := cmd.Run()
	r := procResult{Stdout: so.String(), Stderr: se.String()}
	if ctx.Err() == context.DeadlineExceeded {
		r.TimedOut = true
		r.Exit = -1
		return r
	}
	if err != nil {
		var ee *exec.ExitError
		if errors.As(err, &ee) {
			r.Exit = ee.ExitCode()
		} else {
			r.Exit = -2
			r.Err = err
		}
	}
	return r
}

// caseDir makes a fresh scratch directory for one case; the caller removes it.
func caseDir(prefix string) (string, func()) {
	d, err := os.MkdirTemp(scratchDir(), prefix+"-*")
	if err != nil {
		panic(err)
	}
	return d, func() { os.RemoveAll(d) }
}

func writeFile(dir, name, content string) string {
	p := filepath.Join(dir, name)
	if err := os.WriteFile(p, []byte(content), 0o644); err != nil {
		panic(err)
	}
	return p
}
