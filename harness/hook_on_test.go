//go:build verif

package harness

import "github.com/virus-evolution/gofasta/pkg/vhook"

// slowRecord holds the worker that carries record idx back for us microseconds at every stage boundary
// (idx < 0 switches it off). Only effective in builds with the verif tag, which is how the driver builds.
func slowRecord(idx int, us uint64) { vhook.ConfigureSlow(idx, us) }
