package harness

// C16 — FASTA reading is layout-independent, strict, total and the same in every reader.

import (
	"bytes"
	"fmt"
	"os"
	"strconv"
	"strings"
	"testing"
	"time"

	"github.com/virus-evolution/gofasta/pkg/encoding"
	"github.com/virus-evolution/gofasta/pkg/fastaio"
	"github.com/virus-evolution/gofasta/pkg/variants"
	"pgregory.net/rapid"
)

type c16Case struct {
	Kind    string  `json:"kind"`            // layout | blank | corrupt | raw
	Data    []byte  `json:"data"`            // the byte stream (base64 in JSON)
	Preview string  `json:"preview"`         // human-readable rendering of Data (lossy)
	Ops     string  `json:"ops,omitempty"`   // corruption applied
	Model   []FaRec `json:"model,omitempty"` // for layout/blank: the records the stream was rendered from
}

type c16Rec struct {
	ID, Desc, Seq string
	Idx           int
	Score         int64
	A, C, G, T    int
}

type c16Result struct {
	recs     []c16Rec
	err      error
	pv       any
	timedOut bool
}

func (r c16Result) outcome() string {
	switch {
	case r.timedOut:
		return "hang"
	case r.pv != nil:
		return fmt.Sprintf("panic(%v)", r.pv)
	case r.err != nil:
		return "error"
	}
	return "ok"
}

const c16Deadline = 15 * time.Second

func chanCap(data []byte) int { return bytes.Count(data, []byte(">")) + 4 }

func readPlain(data []byte) c16Result {
	var res c16Result
	ch := make(chan fastaio.FastaRecord, chanCap(data))
	cErr := make(chan error, 2)
	cDone := make(chan bool, 2)
	_, res.timedOut, res.pv = callTimeout(c16Deadline, func() error {
		fastaio.ReadAlignment(bytes.NewReader(data), ch, cErr, cDone)
		return nil
	})
	if res.timedOut || res.pv != nil {
		return res
	}
	select {
	case res.err = <-cErr:
	default:
	}
	close(ch)
	for r := range ch {
		res.recs = append(res.recs, c16Rec{ID: r.ID, Desc: r.Description, Seq: r.Seq, Idx: r.Idx})
	}
	return res
}

func readStream(data []byte, scoring bool) c16Result {
	var res c16Result
	ch := make(chan fastaio.EncodedFastaRecord, chanCap(data))
	cErr := make(chan error, 2)
	cDone := make(chan bool, 2)
	_, res.timedOut, res.pv = callTimeout(c16Deadline, func() error {
		if scoring {
			fastaio.ReadEncodeScoreAlignment(bytes.NewReader(data), false, ch, cErr, cDone)
		} else {
			fastaio.ReadEncodeAlignment(bytes.NewReader(data), false, ch, cErr, cDone)
		}
		return nil
	})
	if res.timedOut || res.pv != nil {
		return res
	}
	select {
	case res.err = <-cErr:
	default:
	}
	close(ch)
	for r := range ch {
		res.recs = append(res.recs, c16Rec{ID: r.ID, Desc: r.Description, Seq: fastDecode(r.Seq), Idx: r.Idx, Score: r.Score, A: r.Count_A, C: r.Count_C, G: r.Count_G, T: r.Count_T})
	}
	return res
}

var decodeTable = encoding.MakeDecodingArray()

// fastDecode is a linear-time rendering of an encoded sequence (gofasta's own Decode concatenates strings,
// which is quadratic and too slow for the 64 KiB boundary cases; the table it uses is the same one).
func fastDecode(seq []byte) string {
	var sb strings.Builder
	sb.Grow(len(seq))
	for _, c := range seq {
		sb.WriteString(decodeTable[c])
	}
	return sb.String()
}

func readList(data []byte) c16Result {
	var res c16Result
	var recs []fastaio.EncodedFastaRecord
	res.err, res.timedOut, res.pv = callTimeout(c16Deadline, func() error {
		var err error
		recs, err = fastaio.ReadEncodeAlignmentToList(bytes.NewReader(data), false)
		return err
	})
	for _, r := range recs {
		res.recs = append(res.recs, c16Rec{ID: r.ID, Desc: r.Description, Seq: fastDecode(r.Seq), Idx: r.Idx})
	}
	return res
}

// ---- specification-level parser --------------------------------------------------------------

type c16Spec struct {
	recs        []c16Rec
	verdict     string // accept | reject | free
	why         string
	hasBlank    bool
	nonAlphabet bool // some sequence-line byte is outside the 32 accepted characters
	longLine    bool
}

func specParse(data []byte) c16Spec {
	var sp c16Spec
	s := string(data)
	var lines []string
	if len(s) > 0 {
		lines = strings.Split(s, "\n")
		if strings.HasSuffix(s, "\n") {
			lines = lines[:len(lines)-1]
		}
	}
	free := func(why string) {
		if sp.verdict == "" {
			sp.verdict, sp.why = "free", why
		}
	}
	var cur *c16Rec
	started := false
	for _, l := range lines {
		if len(l) > 1024*1024-2 {
			sp.longLine = true
		}
		l = strings.TrimSuffix(l, "\r")
		if len(l) == 0 {
			sp.hasBlank = true
			continue
		}
		if !started {
			if l[0] != '>' {
				return c16Spec{verdict: "reject", why: "no leading header", hasBlank: sp.hasBlank}
			}
			started = true
		}
		if l[0] == '>' {
			desc := l[1:]
			f := strings.Fields(desc)
			id := ""
			if len(f) == 0 {
				free("header without an ID")
			} else {
				id = f[0]
			}
			sp.recs = append(sp.recs, c16Rec{ID: id, Desc: desc, Idx: len(sp.recs)})
			cur = &sp.recs[len(sp.recs)-1]
			continue
		}
		for i := 0; i < len(l); i++ {
			if _, ok := baseSet(l[i], false); !ok {
				sp.nonAlphabet = true
			}
		}
		cur.Seq += strings.ToUpper(l)
	}
	if sp.longLine {
		free("line longer than the scanner limit")
	}
	if len(sp.recs) == 0 {
		return c16Spec{verdict: "reject", why: "no records", hasBlank: sp.hasBlank}
	}
	allEmpty := true
	for i := range sp.recs {
		if len(sp.recs[i].Seq) != len(sp.recs[0].Seq) {
			sp.verdict, sp.why = "reject", "unequal record lengths"
			return sp
		}
		if sp.recs[i].Seq != "" {
			allEmpty = false
		}
		if !sp.nonAlphabet {
			sp.recs[i].Score = completenessScore(sp.recs[i].Seq)
			sp.recs[i].A = strings.Count(sp.recs[i].Seq, "A")
			sp.recs[i].C = strings.Count(sp.recs[i].Seq, "C")
			sp.recs[i].G = strings.Count(sp.recs[i].Seq, "G")
			sp.recs[i].T = strings.Count(sp.recs[i].Seq, "T")
		}
	}
	if allEmpty {
		free("all sequences empty")
	}
	if sp.hasBlank {
		free("blank line: may be skipped or rejected")
	}
	if sp.verdict == "" {
		sp.verdict = "accept"
	}
	return sp
}

func sameRecs(a, b []c16Rec, withScore bool) string {
	if len(a) != len(b) {
		return fmt.Sprintf("%d records vs %d", len(a), len(b))
	}
	for i := range a {
		x, y := a[i], b[i]
		if x.ID != y.ID || x.Desc != y.Desc || x.Seq != y.Seq || x.Idx != y.Idx {
			return fmt.Sprintf("record %d: {ID %q desc %q seq %q idx %d} vs {ID %q desc %q seq %q idx %d}", i, x.ID, x.Desc, trunc(x.Seq, 80), x.Idx, y.ID, y.Desc, trunc(y.Seq, 80), y.Idx)
		}
		if withScore && (x.Score != y.Score || x.A != y.A || x.C != y.C || x.G != y.G || x.T != y.T) {
			return fmt.Sprintf("record %d (%s): score/A/C/G/T %d/%d/%d/%d/%d vs %d/%d/%d/%d/%d", i, x.ID, x.Score, x.A, x.C, x.G, x.T, y.Score, y.A, y.C, y.G, y.T)
		}
	}
	return ""
}

func minimalGenbank(n int) string {
	var sb strings.Builder
	sb.WriteString("LOCUS       X " + fmt.Sprint(n) + " bp\nFEATURES             Location/Qualifiers\n     source          1.." + fmt.Sprint(n) + "\nORIGIN\n")
	sb.WriteString("        1 " + strings.Repeat("a", n) + "\n//\n")
	return sb.String()
}

func checkC16(c c16Case, o *Obs) error {
	data := c.Data
	sp := specParse(data)
	o.Label("kind:" + c.Kind)
	o.Label("spec:" + sp.verdict)
	results := map[string]c16Result{
		"plain-text": readPlain(data),
		"streaming":  readStream(data, false),
		"scoring":    readStream(data, true),
		"list":       readList(data),
	}
	names := []string{"plain-text", "streaming", "scoring", "list"}
	// (2) totality: never a panic, never a hang
	for _, n := range names {
		r := results[n]
		if r.pv != nil {
			return fmt.Errorf("%s reader panicked: %v\ninput: %q", n, r.pv, trunc(string(data), 300))
		}
		if r.timedOut {
			return fmt.Errorf("%s reader did not return within %v\ninput: %q", n, c16Deadline, trunc(string(data), 300))
		}
	}
	// (1)/(strict) verdicts
	for _, n := range names {
		r := results[n]
		encoded := n != "plain-text"
		mustReject := sp.verdict == "reject" || (encoded && sp.nonAlphabet && sp.verdict != "free")
		mustAccept := sp.verdict == "accept" && !(encoded && sp.nonAlphabet)
		if mustReject && r.err == nil {
			why := sp.why
			if why == "" {
				why = "symbol outside the IUPAC alphabet"
			}
			return fmt.Errorf("%s reader accepted a stream that must be rejected (%s); it returned %d records\ninput: %q", n, why, len(r.recs), trunc(string(data), 300))
		}
		if mustAccept && r.err != nil {
			return fmt.Errorf("%s reader rejected a valid stream: %v\ninput: %q", n, r.err, trunc(string(data), 300))
		}
		if r.err == nil && (sp.verdict == "accept" || (sp.verdict == "free" && sp.hasBlank && sp.why == "blank line: may be skipped or rejected")) && !(encoded && sp.nonAlphabet) {
			if d := sameRecs(r.recs, sp.recs, n == "scoring"); d != "" {
				return fmt.Errorf("%s reader accepted the stream but its records differ from the file's records: %s\ninput: %q", n, d, trunc(string(data), 300))
			}
		}
		if r.err == nil {
			// (4) accepted records have equal widths and consecutive indices
			for i, rec := range r.recs {
				if len(rec.Seq) != len(r.recs[0].Seq) {
					return fmt.Errorf("%s reader returned records of different widths (%d vs %d)\ninput: %q", n, len(rec.Seq), len(r.recs[0].Seq), trunc(string(data), 300))
				}
				if rec.Idx != i {
					return fmt.Errorf("%s reader: record %d has index %d", n, i, rec.Idx)
				}
			}
		}
	}
	// (3) agreement between readers
	enc := []string{"streaming", "scoring", "list"}
	for _, n := range enc[1:] {
		a, b := results[enc[0]], results[n]
		if (a.err == nil) != (b.err == nil) {
			return fmt.Errorf("readers disagree: streaming %s, %s %s\ninput: %q", a.outcome(), n, b.outcome(), trunc(string(data), 300))
		}
		if a.err == nil {
			if d := sameRecs(a.recs, b.recs, false); d != "" {
				return fmt.Errorf("streaming and %s readers return different records: %s\ninput: %q", n, d, trunc(string(data), 300))
			}
		}
	}
	if !sp.nonAlphabet {
		a, b := results["plain-text"], results["streaming"]
		if (a.err == nil) != (b.err == nil) {
			return fmt.Errorf("readers disagree: plain-text %s, streaming %s\ninput: %q", a.outcome(), b.outcome(), trunc(string(data), 300))
		}
		if a.err == nil {
			if d := sameRecs(a.recs, b.recs, false); d != "" {
				return fmt.Errorf("plain-text and streaming readers return different records: %s\ninput: %q", d, trunc(string(data), 300))
			}
		}
	}
	// findReference, reached through variants.Variants (bytes.Reader + --reference): must not panic or hang;
	// on a valid stream it must find every record.
	if os.Getenv("VERIF_C16_SKIP_VARIANTS") == "" && len(data) < 1<<16 {
		refIDs := []string{"nosuchid"}
		for i, r := range sp.recs {
			if r.ID != "" && (i == 0 || i == len(sp.recs)-1) {
				refIDs = append(refIDs, r.ID)
			}
		}
		width := 1
		if len(sp.recs) > 0 && len(sp.recs[0].Seq) > 0 {
			width = len(strings.ReplaceAll(sp.recs[0].Seq, "-", ""))
			if width == 0 {
				width = 1
			}
		}
		for _, id := range refIDs {
			var out bytes.Buffer
			// the reference record may contain gaps; annotation length = its degapped length
			w := width
			degenerate := false
			for _, r := range sp.recs {
				if r.ID == id {
					if d := len(strings.ReplaceAll(r.Seq, "-", "")); d > 0 {
						w = d
					} else {
						degenerate = true // reference record without a single base
					}
					break
				}
			}
			err, to, pv := callTimeout(c16Deadline, func() error {
				return variants.Variants(bytes.NewReader(data), false, id, strings.NewReader(minimalGenbank(w)), "gb", &out, -1, -1, false, 0, false, 1)
			})
			if pv != nil {
				return fmt.Errorf("variants (findReference, --reference %q) panicked: %v\ninput: %q", id, pv, trunc(string(data), 300))
			}
			if to {
				return fmt.Errorf("variants (findReference, --reference %q) did not return within %v\ninput: %q", id, c16Deadline, trunc(string(data), 300))
			}
			if sp.verdict == "accept" && !sp.nonAlphabet && id != "nosuchid" && !degenerate && err != nil && uniqueIDs(sp.recs) {
				return fmt.Errorf("variants --reference %q rejected a valid alignment: %v\ninput: %q", id, err, trunc(string(data), 300))
			}
			if sp.verdict == "reject" && err == nil {
				return fmt.Errorf("variants --reference %q accepted a stream that must be rejected (%s)\ninput: %q", id, sp.why, trunc(string(data), 300))
			}
		}
	}
	// non-triviality
	switch c.Kind {
	case "layout", "blank":
		n := 0
		if bytes.Contains(data, []byte("\r\n")) {
			n++
		}
		if !bytes.HasSuffix(data, []byte("\n")) {
			n++
		}
		if sp.hasBlank {
			n++
		}
		if strings.ToUpper(string(data)) != string(data) {
			n++
		}
		wrapped := false
		for _, r := range c.Model {
			if strings.Count(string(data), "\n") > 2*len(c.Model) && len(r.Seq) > 1 {
				wrapped = true
			}
		}
		if wrapped {
			n++
		}
		if n >= 2 {
			o.NonTrivial()
		}
	default:
		if len(sp.recs) >= 2 || sp.verdict == "reject" {
			o.NonTrivial()
		}
	}
	return nil
}

func uniqueIDs(rs []c16Rec) bool {
	m := map[string]bool{}
	for _, r := range rs {
		if m[r.ID] {
			return false
		}
		m[r.ID] = true
	}
	return true
}

func preview(b []byte) string { return trunc(fmt.Sprintf("%q", string(b)), 400) }

func genC16Records(t *rapid.T) []FaRec {
	w := rapid.IntRange(1, 30).Draw(t, "width")
	n := rapid.IntRange(1, 5).Draw(t, "nrec")
	var recs []FaRec
	if rapid.IntRange(0, 9).Draw(t, "periodic") == 0 {
		// wide, low-complexity records (repeated units, poly-N stretches): when wrapped at the unit length
		// consecutive sequence lines are identical, as they are in real files with long N tracts
		u := rapid.SampledFrom([]int{60, 64, 70, 80, 100}).Draw(t, "unit")
		w = rapid.IntRange(2*u, 6*u).Draw(t, "wideWidth")
		for i := 0; i < n; i++ {
			unit := genAlnSeq(t, u, "unitSym")
			if rapid.IntRange(0, 2).Draw(t, "polyN") == 0 {
				unit = strings.Repeat("N", u)
			}
			seq := []byte(strings.Repeat(unit, w/u+1)[:w])
			for k := rapid.IntRange(0, 3).Draw(t, "edits"); k > 0; k-- {
				seq[rapid.IntRange(0, w-1).Draw(t, "editPos")] = alpha17[rapid.IntRange(0, 16).Draw(t, "editSym")]
			}
			recs = append(recs, FaRec{ID: genID(t, i, "id"), Desc: genDesc(t, "desc"), Seq: randomCase(t, string(seq), "case")})
		}
		periodicUnit = u
		return recs
	}
	periodicUnit = 0
	for i := 0; i < n; i++ {
		recs = append(recs, FaRec{ID: genID(t, i, "id"), Desc: genDesc(t, "desc"), Seq: randomCase(t, genAlnSeq(t, w, "sym"), "case")})
	}
	return recs
}

var hostileSnippets = []string{">", "> ", ">\n", "\n", "\n\n", "\r", "\r\n", ">x", ">x\n", "ACGT", "acgt\n", "!", "*", ".", "U", "Z", " ", "\t", ">a b\n", "\x00", "\xff", ">>"}

// periodicUnit is set by genC16Records when it produced unit-periodic records (single-threaded generator).
var periodicUnit int

func genC16(t *rapid.T) c16Case {
	recs := genC16Records(t)
	w := len(recs[0].Seq)
	lay := genLayout(t, w)
	if periodicUnit > 0 && rapid.IntRange(0, 3).Draw(t, "wrapAtUnit") != 0 {
		lay.Width = periodicUnit
	}
	data := []byte(renderFasta(recs, lay))
	kind := rapid.SampledFrom([]string{"layout", "layout", "blank", "corrupt", "corrupt", "corrupt"}).Draw(t, "kind")
	c := c16Case{Kind: kind, Model: recs}
	switch kind {
	case "layout":
	case "blank":
		// insert 1..3 blank lines at line boundaries (start, middle, end)
		nl := "\n"
		if lay.CRLF {
			nl = "\r\n"
		}
		for k := rapid.IntRange(1, 3).Draw(t, "nblank"); k > 0; k-- {
			var bounds []int
			bounds = append(bounds, 0)
			for i := 0; i < len(data); i++ {
				if data[i] == '\n' {
					bounds = append(bounds, i+1)
				}
			}
			if !bytes.HasSuffix(data, []byte("\n")) {
				// a blank line at the very end needs the terminator of the last line first
				bounds = bounds[:len(bounds)]
			}
			p := bounds[rapid.IntRange(0, len(bounds)-1).Draw(t, "blankAt")]
			data = append(append(append([]byte(nil), data[:p]...), nl...), data[p:]...)
		}
		c.Ops = "blank lines"
	case "corrupt":
		nops := rapid.IntRange(1, 2).Draw(t, "nops")
		var ops []string
		for k := 0; k < nops; k++ {
			op := rapid.SampledFrom([]string{"delbyte", "dupbyte", "insbyte", "delline", "dupline", "insert-snippet", "truncate", "empty", "lone-header-end", "header-no-id", "cr-no-lf", "shorten-record", "strip-leading-header"}).Draw(t, "op")
			ops = append(ops, op)
			pos := 0
			if len(data) > 0 {
				pos = rapid.IntRange(0, len(data)-1).Draw(t, "pos")
			}
			lines := bytes.SplitAfter(data, []byte("\n"))
			switch op {
			case "delbyte":
				if len(data) > 0 {
					data = append(append([]byte(nil), data[:pos]...), data[pos+1:]...)
				}
			case "dupbyte":
				if len(data) > 0 {
					data = append(append(append([]byte(nil), data[:pos]...), data[pos]), data[pos:]...)
				}
			case "insbyte":
				b := rapid.SampledFrom([]byte{'!', '*', '.', 'U', 'Z', 'x', ' ', '\t', 0, 0xff, '>', '\n', '\r', 'N', '-', '?', 'a'}).Draw(t, "byte")
				data = append(append(append([]byte(nil), data[:pos]...), b), data[pos:]...)
			case "delline":
				i := rapid.IntRange(0, len(lines)-1).Draw(t, "line")
				data = bytes.Join(append(append([][]byte(nil), lines[:i]...), lines[i+1:]...), nil)
			case "dupline":
				i := rapid.IntRange(0, len(lines)-1).Draw(t, "line")
				nl := append(append([][]byte(nil), lines[:i+1]...), lines[i:]...)
				data = bytes.Join(nl, nil)
			case "insert-snippet":
				sn := rapid.SampledFrom(hostileSnippets).Draw(t, "snippet")
				where := rapid.SampledFrom([]int{0, pos, len(data)}).Draw(t, "where")
				data = append(append(append([]byte(nil), data[:where]...), sn...), data[where:]...)
			case "truncate":
				data = data[:pos]
			case "empty":
				data = nil
			case "lone-header-end":
				if len(data) > 0 && data[len(data)-1] != '\n' {
					data = append(data, '\n')
				}
				data = append(data, rapid.SampledFrom([]string{">last", ">last\n", ">", ">\n", "> \n"}).Draw(t, "tail")...)
			case "header-no-id":
				i := rapid.IntRange(0, len(lines)-1).Draw(t, "line")
				for j := i; j < len(lines); j++ {
					if len(lines[j]) > 0 && lines[j][0] == '>' {
						lines[j] = []byte(rapid.SampledFrom([]string{">\n", "> \n", ">\t\n", ">\r\n"}).Draw(t, "emptyHeader"))
						break
					}
				}
				data = bytes.Join(lines, nil)
			case "cr-no-lf":
				data = bytes.Replace(data, []byte("\n"), []byte("\r"), rapid.IntRange(1, 3).Draw(t, "ncr"))
			case "shorten-record":
				// drop one sequence character from some sequence line (unequal record lengths)
				var idx []int
				for i, l := range lines {
					if len(l) > 1 && l[0] != '>' {
						idx = append(idx, i)
					}
				}
				if len(idx) > 0 {
					i := idx[rapid.IntRange(0, len(idx)-1).Draw(t, "line")]
					lines[i] = lines[i][1:]
					data = bytes.Join(lines, nil)
				}
			case "strip-leading-header":
				if len(data) > 0 && data[0] == '>' {
					data = data[1:]
				}
			}
		}
		c.Ops = strings.Join(ops, ",")
		c.Model = nil
	}
	c.Data = data
	c.Preview = preview(data)
	return c
}

func TestC16(t *testing.T) {
	// fixed hostile constants first (also the seed corpus of the native fuzz target)
	n := runEnumerated(t, "C16", func(yield func(c16Case) bool) {
		for _, s := range c16Corpus() {
			if !yield(c16Case{Kind: "raw", Data: []byte(s), Preview: preview([]byte(s))}) {
				return
			}
		}
	}, checkC16)
	stats.Extra["fixed_hostile_inputs"] = n
	if t.Failed() {
		return
	}
	// line-length boundary sweep: single-line records whose length sits on, just below and just above every
	// multiple of 1024 (thorough: 256) up to 66 KiB, with LF and CRLF line ends, with and without a final
	// terminator. Buffered line readers have their off-by-ones exactly there.
	shard, _ := strconv.Atoi(shardTag())
	nsh, _ := strconv.Atoi(getenvDefault("VERIF_NSHARDS", "1"))
	step := 1024
	if thorough() {
		step = 256
	}
	m := runEnumerated(t, "C16", func(yield func(c16Case) bool) {
		i := 0
		for base := step; base <= 66*1024; base += step {
			for d := -2; d <= 1; d++ {
				for _, crlf := range []bool{false, true} {
					i++
					if i%nsh != shard%nsh {
						continue
					}
					L := base + d
					unit := "ACGTNRYKM-SWBDHV?acgtn"
					s1 := strings.Repeat(unit, L/len(unit)+1)[:L]
					s2 := strings.Repeat(unit[3:]+unit[:3], L/len(unit)+1)[:L]
					recs := []FaRec{{ID: "r1", Desc: "first", Seq: s1}, {ID: "r2", Seq: s2}}
					data := []byte(renderFasta(recs, Layout{Width: 0, CRLF: crlf, FinalNL: i%3 != 0}))
					if !yield(c16Case{Kind: "line-length-boundary", Data: data, Preview: fmt.Sprintf("2 records, one line of %d symbols each, crlf=%v", L, crlf)}) {
						return
					}
				}
			}
		}
	}, checkC16)
	stats.Extra["line_length_boundary_cases_this_shard"] = m
	if t.Failed() {
		return
	}
	runProp(t, "C16", genC16, checkC16)
}

func c16Corpus() []string {
	big := ">a\n" + strings.Repeat("A", 1024*1024+1) + "\n"
	c := []string{
		"", "\n", "\n\n", ">", ">\n", "> \n", ">a", ">a\n", ">a\n\n", ">a\nACGT", ">a\nACGT\n", ">a\nACGT\n\n", "\n>a\nACGT\n",
		">a\nACGT\n>b\n", ">a\nACGT\n>b", ">a\n>b\n", ">a\n>b\nACGT\n", ">a\nAC\nGT\n>b\nACGT\n", ">a\nACGT\n>b\nACG\n", ">a\nACG\n>b\nACGT\n",
		">a\nACGT\n\n>b\nACGT\n", ">a\nAC\n\nGT\n>b\nACGT\n", ">a\r\nACGT\r\n>b\r\nacgt\r\n", ">a\r\nACGT\r\n\r\n>b\r\nACGT", ">a\rACGT\r>b\rACGT\r",
		"ACGT\n", "ACGT\n>a\nACGT\n", " >a\nACGT\n", ">a\nAC!T\n", ">a\nACUT\n", ">a\nAC GT\n", ">a\nACGT\n>\nACGT\n", ">a\nACGT\n> \nACGT\n",
		">a b c\nacgtn-?\n>a2\tx\nRYSWKMB\n", ">a\nACGT\n>a\nACGT\n", ">>a\nACGT\n", ">a\n>\n", "\xff\xfe", ">a\n\x00\n", ">a\nACGT\n>b\nAC\n>c\nACGT\n",
		big,
	}
	return c
}

// FuzzC16 is the native coverage-guided target: arbitrary bytes through the same oracle.
func FuzzC16(f *testing.F) {
	for _, s := range c16Corpus() {
		if len(s) < 4096 {
			f.Add([]byte(s))
		}
	}
	for _, p := range []string{"/repo/pkg/fastaio/fastaio_test.go"} {
		_ = p
	}
	f.Fuzz(func(t *testing.T, data []byte) {
		if len(data) > 1<<15 {
			return
		}
		c := c16Case{Kind: "raw", Data: data, Preview: preview(data)}
		o := &Obs{}
		if err := safeCheck(checkC16, c, o); err != nil {
			b := mustJSON(c)
			p := writeReplay("C16-fuzz", b, err.Error())
			t.Fatalf("C16 violated: %v (replay %s)", err, p)
		}
	})
}
