package harness

// Oracle for `variants` / `sam variants` rows: works on a gapped reference row and query row, in
// ungapped reference coordinates, from the statements of C04 and C05.

import (
	"fmt"
	"sort"
	"strconv"
	"strings"
)

// pairView is the pairwise relation of one query to the reference, in reference coordinates.
type pairView struct {
	L           int
	ref         []byte      // ref[p-1]: reference symbol at position p (upper case)
	qry         []byte      // qry[p-1]: query symbol aligned to position p ('-' if deleted)
	ins         map[int]int // slot p (0..L, after p reference bases) -> number of query symbols inserted there
	bothGapCols int
}

func viewFromRows(R, Q string) (pairView, error) {
	if len(R) != len(Q) {
		return pairView{}, fmt.Errorf("rows differ in width: %d vs %d", len(R), len(Q))
	}
	v := pairView{ins: map[int]int{}}
	for i := 0; i < len(R); i++ {
		r, q := upper(R[i]), upper(Q[i])
		if r == '-' {
			if q != '-' {
				v.ins[len(v.ref)]++
			} else {
				v.bothGapCols++
			}
			continue
		}
		v.ref = append(v.ref, r)
		v.qry = append(v.qry, q)
	}
	v.L = len(v.ref)
	return v, nil
}

func (v pairView) expectedIndels() []string {
	var out []string
	for p := 0; p <= v.L; p++ {
		if n := v.ins[p]; n > 0 {
			out = append(out, fmt.Sprintf("ins:%d:%d", p, n))
		}
	}
	for p := 1; p <= v.L; {
		if v.qry[p-1] != '-' {
			p++
			continue
		}
		q := p
		for q <= v.L && v.qry[q-1] == '-' {
			q++
		}
		// run p..q-1; not reported if it includes the first or the last reference base
		if p != 1 && q-1 != v.L {
			out = append(out, fmt.Sprintf("del:%d:%d", p, q-p))
		}
		p = q
	}
	return out
}

// expectedSNPs: position -> "<ref><pos><qry>" for every position whose base sets are disjoint.
func (v pairView) expectedSNPs() map[int]string {
	m := map[int]string{}
	for p := 1; p <= v.L; p++ {
		if disjoint(v.ref[p-1], v.qry[p-1], false) {
			m[p] = string(v.ref[p-1]) + strconv.Itoa(p) + string(v.qry[p-1])
		}
	}
	return m
}

type aaCall struct {
	Feature string
	K       int // 1-based codon index
	R, Q    byte
	SNPs    []string // in translation order
	Pos     []int    // the codon's three positions
}

func (c aaCall) text() string { return fmt.Sprintf("aa:%s:%c%d%c", c.Feature, c.R, c.K, c.Q) }

// expectedAAs: every named feature's codon whose query translation is unambiguous and differs.
func (v pairView) expectedAAs(a Anno) map[string]aaCall {
	out := map[string]aaCall{}
	snps := v.expectedSNPs()
	for _, f := range a.Feats {
		if f.Name == "" {
			continue
		}
		cp := f.codingPositions()
		for k := 0; k < f.nCodons(); k++ {
			rc := f.codon(k, func(p int) byte { return v.ref[p-1] })
			qc := f.codon(k, func(p int) byte { return v.qry[p-1] })
			raa, qaa := translateCodonModel(rc), translateCodonModel(qc)
			if qaa == 'X' || qaa == raa {
				continue
			}
			c := aaCall{Feature: f.Name, K: k + 1, R: raa, Q: qaa, Pos: cp[3*k : 3*k+3]}
			for _, p := range c.Pos {
				if s, ok := snps[p]; ok {
					c.SNPs = append(c.SNPs, "nuc:"+s)
				}
			}
			out[c.text()] = c
		}
	}
	return out
}

type parsedMut struct {
	Kind    string // nuc | ins | del | aa
	Text    string // without the parenthesised part
	Pos     int    // explicit for nuc/ins/del
	Len     int
	SNPs    []string // aa with --append-snps: "nuc:A1T" items
	HasList bool
}

func parseMut(s string) (parsedMut, error) {
	m := parsedMut{}
	body := s
	if i := strings.IndexByte(s, '('); i >= 0 {
		if !strings.HasSuffix(s, ")") {
			return m, fmt.Errorf("bad mutation %q", s)
		}
		body = s[:i]
		m.HasList = true
		if inner := s[i+1 : len(s)-1]; inner != "" {
			m.SNPs = strings.Split(inner, ";")
		}
	}
	m.Text = body
	f := strings.Split(body, ":")
	switch f[0] {
	case "nuc":
		if len(f) != 2 || len(f[1]) < 3 {
			return m, fmt.Errorf("bad mutation %q", s)
		}
		p, err := strconv.Atoi(f[1][1 : len(f[1])-1])
		if err != nil {
			return m, fmt.Errorf("bad mutation %q", s)
		}
		m.Kind, m.Pos = "nuc", p
	case "ins", "del":
		if len(f) != 3 {
			return m, fmt.Errorf("bad mutation %q", s)
		}
		p, e1 := strconv.Atoi(f[1])
		l, e2 := strconv.Atoi(f[2])
		if e1 != nil || e2 != nil {
			return m, fmt.Errorf("bad mutation %q", s)
		}
		m.Kind, m.Pos, m.Len = f[0], p, l
	case "aa":
		if len(f) != 3 || len(f[2]) < 3 {
			return m, fmt.Errorf("bad mutation %q", s)
		}
		m.Kind = "aa"
	default:
		return m, fmt.Errorf("bad mutation %q", s)
	}
	return m, nil
}

func splitMuts(field string) []string {
	if field == "" {
		return nil
	}
	return strings.Split(field, "|")
}

// checkVariantRow checks one query's mutation list (obtained WITH --append-snps) against C04 and C05.
// window: if lo/hi > 0 only mutations with lo <= position <= hi are expected (C15 uses this).
func checkVariantRow(muts []string, a Anno, v pairView, o *Obs) error {
	wantIndels := v.expectedIndels()
	wantSNPs := v.expectedSNPs()
	wantAAs := v.expectedAAs(a)
	var gotIndels []string
	mentioned := map[int]string{}
	gotAAs := map[string]bool{}
	nNuc, nAA := 0, 0
	for _, s := range muts {
		m, err := parseMut(s)
		if err != nil {
			return err
		}
		switch m.Kind {
		case "ins", "del":
			gotIndels = append(gotIndels, m.Text)
		case "nuc":
			nNuc++
			body := strings.TrimPrefix(m.Text, "nuc:")
			want, ok := wantSNPs[m.Pos]
			if !ok {
				return fmt.Errorf("%s reported but reference and query base sets at position %d are not disjoint (ref %q query %q): invented difference", s, m.Pos, symAt(v.ref, m.Pos), symAt(v.qry, m.Pos))
			}
			if body != want {
				return fmt.Errorf("%s reported; the difference at position %d is %s", s, m.Pos, want)
			}
			mentioned[m.Pos] = body
		case "aa":
			nAA++
			if !m.HasList {
				return fmt.Errorf("%s has no (nuc:...) list although --append-snps was given", s)
			}
			c, ok := wantAAs[m.Text]
			if !ok {
				return fmt.Errorf("%s reported but no named feature has such a codon with an unambiguous, different query translation (%s)", s, explainAA(m.Text, a, v))
			}
			if strings.Join(m.SNPs, ";") != strings.Join(c.SNPs, ";") {
				return fmt.Errorf("%s lists SNPs (%s); the codon's differences are (%s)", s, strings.Join(m.SNPs, ";"), strings.Join(c.SNPs, ";"))
			}
			if gotAAs[m.Text] {
				return fmt.Errorf("%s reported twice", s)
			}
			gotAAs[m.Text] = true
			for _, sn := range m.SNPs {
				pm, err := parseMut(sn)
				if err != nil || pm.Kind != "nuc" {
					return fmt.Errorf("bad SNP %q inside %s", sn, s)
				}
				mentioned[pm.Pos] = strings.TrimPrefix(sn, "nuc:")
			}
		}
	}
	// C04 (c): completeness of aa
	var missingAA []string
	for k := range wantAAs {
		if !gotAAs[k] {
			missingAA = append(missingAA, k)
		}
	}
	if len(missingAA) > 0 {
		sort.Strings(missingAA)
		return fmt.Errorf("amino-acid change(s) not reported: %v (reported: %v)", missingAA, muts)
	}
	// C04 (a): no nucleotide difference lost
	var missing []string
	for p, s := range wantSNPs {
		if _, ok := mentioned[p]; !ok {
			missing = append(missing, fmt.Sprintf("%s(pos %d)", s, p))
		}
	}
	if len(missing) > 0 {
		sort.Strings(missing)
		return fmt.Errorf("nucleotide difference(s) dropped (neither a nuc: record nor inside an aa: record): %v (reported: %v)", missing, muts)
	}
	// C05: indels in reference coordinates
	sort.Strings(gotIndels)
	w := append([]string(nil), wantIndels...)
	sort.Strings(w)
	if strings.Join(gotIndels, "|") != strings.Join(w, "|") {
		return fmt.Errorf("indels reported %v; in reference coordinates they are %v", gotIndels, wantIndels)
	}
	if o != nil {
		o.LabelIf(nAA > 0, "row:aa")
		o.LabelIf(nNuc > 0, "row:nuc")
		o.LabelIf(len(wantIndels) > 0, "row:indel")
	}
	return nil
}

func symAt(b []byte, p int) string {
	if p < 1 || p > len(b) {
		return "?out-of-range"
	}
	return string(b[p-1])
}

func explainAA(text string, a Anno, v pairView) string {
	f := strings.Split(text, ":")
	if len(f) != 3 {
		return "unparsable"
	}
	k, err := strconv.Atoi(f[2][1 : len(f[2])-1])
	if err != nil {
		return "unparsable residue"
	}
	for _, ft := range a.Feats {
		if ft.Name == f[1] {
			if k < 1 || k > ft.nCodons() {
				return fmt.Sprintf("feature %s has %d codons", ft.Name, ft.nCodons())
			}
			rc := ft.codon(k-1, func(p int) byte { return v.ref[p-1] })
			qc := ft.codon(k-1, func(p int) byte { return v.qry[p-1] })
			return fmt.Sprintf("codon %d of %s: reference %s=%c, query %s=%c", k, ft.Name, rc, translateCodonModel(rc), qc, translateCodonModel(qc))
		}
	}
	return "no feature named " + f[1]
}

// stripSNPLists removes the parenthesised parts: what the row must be without --append-snps.
func stripSNPLists(muts []string) []string {
	out := make([]string, len(muts))
	for i, s := range muts {
		if j := strings.IndexByte(s, '('); j >= 0 {
			s = s[:j]
		}
		out[i] = s
	}
	return out
}

// mutPosition returns the genomic position the --start/--end filter and the ordering use for a mutation:
// explicit for nuc/ins/del; for aa the lowest and highest coordinate of the codon (the documented
// position is "the first position of the codon"; for joined/reverse codons any of its coordinates is
// accepted by callers that only need an interval).
func mutInterval(s string, a Anno) (lo, hi int, err error) {
	m, err := parseMut(s)
	if err != nil {
		return 0, 0, err
	}
	if m.Kind != "aa" {
		return m.Pos, m.Pos, nil
	}
	f := strings.Split(m.Text, ":")
	k, err := strconv.Atoi(f[2][1 : len(f[2])-1])
	if err != nil {
		return 0, 0, err
	}
	// several features may carry one name (two products of one gene): the span over all of them that have such a codon
	found := false
	for _, ft := range a.Feats {
		if ft.Name == f[1] && k >= 1 && k <= ft.nCodons() {
			cp := ft.codingPositions()[3*(k-1) : 3*k]
			if !found {
				lo, hi = cp[0], cp[0]
			}
			found = true
			for _, p := range cp {
				if p < lo {
					lo = p
				}
				if p > hi {
					hi = p
				}
			}
		}
	}
	if found {
		return lo, hi, nil
	}
	return 0, 0, fmt.Errorf("aa record %q names no feature/codon of the annotation", s)
}

// parseVariantsOutput: "query,mutations" rows -> name -> mutation list, plus the row order.
func parseVariantsOutput(out string) (order []string, rows map[string][]string, err error) {
	lines := splitLines(out)
	if len(lines) == 0 || lines[0] != "query,mutations" {
		return nil, nil, fmt.Errorf("bad header in variants output: %q", trunc(out, 200))
	}
	rows = map[string][]string{}
	for _, l := range lines[1:] {
		i := strings.IndexByte(l, ',')
		if i < 0 {
			return nil, nil, fmt.Errorf("bad row %q", l)
		}
		name := l[:i]
		if _, dup := rows[name]; dup {
			return nil, nil, fmt.Errorf("query %q has two rows", name)
		}
		order = append(order, name)
		rows[name] = splitMuts(l[i+1:])
	}
	return order, rows, nil
}
