package harness

// Query sequences for the annotation properties, in FASTA-MSA form: every query is derived from the
// reference by substitutions (bases, IUPAC codes that contain / do not contain the reference base),
// deletions, insertions, N tracts; the MSA is assembled with shared insertion slots so that other
// sequences' insertions create both-gap columns for the query under test.

import (
	"strings"

	"pgregory.net/rapid"
)

type varQuery struct {
	Name string
	Row  []byte         // one symbol per reference position
	Ins  map[int]string // slot -> inserted bases
}

// MsaCase is the rendered alignment (self-contained: the oracle works on the rows).
type MsaCase struct {
	RefID  string  `json:"ref_id"` // ID of the reference record ("" = take the reference from the annotation)
	Rows   []FaRec `json:"rows"`   // all records, reference included (unless RefID == "")
	RefAt  int     `json:"ref_at"` // index of the reference record in Rows (-1 if absent)
	Layout Layout  `json:"layout"`
}

func (m MsaCase) refRow(a Anno) string {
	if m.RefAt >= 0 {
		return m.Rows[m.RefAt].Seq
	}
	return a.Ref
}

func (m MsaCase) queries() []FaRec {
	var q []FaRec
	for i, r := range m.Rows {
		if i != m.RefAt {
			q = append(q, r)
		}
	}
	return q
}

func (m MsaCase) render() string { return renderFasta(m.Rows, m.Layout) }

// pickPos draws a reference position, biased towards coding positions and feature borders.
func pickPos(t *rapid.T, a Anno, label string) int {
	L := len(a.Ref)
	if len(a.Feats) > 0 && rapid.IntRange(0, 9).Draw(t, label+"InFeat") < 7 {
		f := a.Feats[rapid.IntRange(0, len(a.Feats)-1).Draw(t, label+"Feat")]
		switch rapid.IntRange(0, 5).Draw(t, label+"Where") {
		case 0:
			return f.minPos()
		case 1:
			return f.maxPos()
		case 2:
			p := f.minPos() - 1
			if p >= 1 {
				return p
			}
		case 3:
			p := f.maxPos() + 1
			if p <= L {
				return p
			}
		}
		ap := f.allPositions()
		return ap[rapid.IntRange(0, len(ap)-1).Draw(t, label+"Idx")]
	}
	switch rapid.IntRange(0, 7).Draw(t, label+"Edge") {
	case 0:
		return 1
	case 1:
		return L
	}
	return rapid.IntRange(1, L).Draw(t, label)
}

func genVarQuery(t *rapid.T, a Anno, name string, allowIns bool, indelHeavy bool) varQuery {
	maxIndel := 2
	if indelHeavy {
		maxIndel = 5
	}
	L := len(a.Ref)
	q := varQuery{Name: name, Row: []byte(a.Ref), Ins: map[int]string{}}
	// substitutions
	for k := rapid.IntRange(0, 5).Draw(t, "nSub"); k > 0; k-- {
		p := pickPos(t, a, "subPos")
		r := a.Ref[p-1]
		rs := mustSet(r, false)
		switch kind := rapid.IntRange(0, 9).Draw(t, "subKind"); {
		case kind < 6: // a different base
			q.Row[p-1] = "ACGT"[rapid.IntRange(0, 3).Draw(t, "subBase")]
		case kind < 7: // IUPAC code that contains the reference base: not a difference
			s := rs | uint8(rapid.IntRange(1, 15).Draw(t, "subSuperset"))
			q.Row[p-1] = symbolForSet(s)
		case kind < 9: // IUPAC code that excludes the reference base: a certain difference
			s := uint8(rapid.IntRange(1, 15).Draw(t, "subDisjoint")) &^ rs
			if s != 0 {
				q.Row[p-1] = symbolForSet(s)
			}
		default:
			q.Row[p-1] = rapid.SampledFrom([]byte{'N', '?'}).Draw(t, "subUnknown")
		}
	}
	// a whole codon rewritten (several SNPs in one codon)
	if len(a.Feats) > 0 && rapid.IntRange(0, 3).Draw(t, "codonRewrite") == 0 {
		f := a.Feats[rapid.IntRange(0, len(a.Feats)-1).Draw(t, "codonFeat")]
		k := rapid.IntRange(0, f.nCodons()-1).Draw(t, "codonIdx")
		for _, p := range f.codingPositions()[3*k : 3*k+3] {
			if rapid.Bool().Draw(t, "codonBaseChange") {
				q.Row[p-1] = "ACGT"[rapid.IntRange(0, 3).Draw(t, "codonBase")]
			}
		}
	}
	// an IUPAC codon that still has a single translation (incl. the doubly ambiguous YTR, MGR), on the feature's strand
	if len(a.Feats) > 0 && rapid.IntRange(0, 4).Draw(t, "iupacCodon") == 0 {
		f := a.Feats[rapid.IntRange(0, len(a.Feats)-1).Draw(t, "iupacCodonFeat")]
		k := rapid.IntRange(0, f.nCodons()-1).Draw(t, "iupacCodonIdx")
		codon := rapid.SampledFrom([]string{"YTR", "MGR", "YTA", "YTG", "MGA", "MGG", "TTR", "CTN", "AGR", "CGN", "TCN", "AGY", "ACN", "GGN", "ATH", "TAR", "TRA", "AAY", "GAR", "RAT", "NNN", "ATN"}).Draw(t, "iupacCodonSyms")
		for i, p := range f.codingPositions()[3*k : 3*k+3] {
			c := codon[i]
			if f.Strand < 0 {
				c = complementBase(c)
			}
			q.Row[p-1] = c
		}
	}
	// deletions
	for k := rapid.IntRange(0, maxIndel).Draw(t, "nDel"); k > 0; k-- {
		p := pickPos(t, a, "delPos")
		n := rapid.IntRange(1, 6).Draw(t, "delLen")
		for i := p; i < p+n && i <= L; i++ {
			q.Row[i-1] = '-'
		}
	}
	// N tract
	if rapid.IntRange(0, 5).Draw(t, "nTract") == 0 {
		p := pickPos(t, a, "nPos")
		n := rapid.IntRange(1, 8).Draw(t, "nLen")
		for i := p; i < p+n && i <= L; i++ {
			q.Row[i-1] = 'N'
		}
	}
	// insertions
	if allowIns {
		for k := rapid.IntRange(0, maxIndel).Draw(t, "nIns"); k > 0; k-- {
			var slot int
			switch rapid.IntRange(0, 7).Draw(t, "insWhere") {
			case 0:
				slot = 0
			case 1:
				slot = L
			default:
				slot = pickPos(t, a, "insSlot")
				if rapid.Bool().Draw(t, "insBefore") {
					slot--
				}
			}
			q.Ins[slot] = genACGT(t, rapid.IntRange(1, 5).Draw(t, "insLen"), "insBase")
		}
	}
	return q
}

// assembleMSA renders the reference and the queries into equally wide rows.
func assembleMSA(t *rapid.T, a Anno, qs []varQuery, withRef bool, extraBothGap bool) MsaCase {
	L := len(a.Ref)
	width := make([]int, L+1)
	for _, q := range qs {
		for s, b := range q.Ins {
			if len(b) > width[s] {
				width[s] = len(b)
			}
		}
	}
	if extraBothGap {
		// insertions of sequences that are not in the file any more: columns that are gaps in every row
		for k := rapid.IntRange(0, 2).Draw(t, "nExtraSlots"); k > 0; k-- {
			width[rapid.IntRange(0, L).Draw(t, "extraSlot")] += rapid.IntRange(1, 3).Draw(t, "extraWidth")
		}
	}
	place := func(b string, w int) string {
		// left-justified, right-justified or spread over the slot
		switch rapid.IntRange(0, 2).Draw(t, "justify") {
		case 0:
			return b + strings.Repeat("-", w-len(b))
		case 1:
			return strings.Repeat("-", w-len(b)) + b
		}
		out := make([]byte, 0, w)
		rest := w - len(b)
		for i := 0; i < len(b); i++ {
			g := 0
			if rest > 0 {
				g = rapid.IntRange(0, rest).Draw(t, "spreadGap")
			}
			out = append(out, strings.Repeat("-", g)...)
			rest -= g
			out = append(out, b[i])
		}
		out = append(out, strings.Repeat("-", rest)...)
		return string(out)
	}
	build := func(row []byte, ins map[int]string) string {
		var sb strings.Builder
		for p := 0; p <= L; p++ {
			if width[p] > 0 {
				sb.WriteString(place(ins[p], width[p]))
			}
			if p < L {
				sb.WriteByte(row[p])
			}
		}
		return sb.String()
	}
	m := MsaCase{RefAt: -1}
	for _, q := range qs {
		m.Rows = append(m.Rows, FaRec{ID: q.Name, Desc: genDesc(t, "desc"), Seq: randomCase(t, build(q.Row, q.Ins), "case")})
	}
	if !withRef && len(m.Rows) > 0 && rapid.IntRange(0, 2).Draw(t, "queryNamedLikeReference") == 0 {
		// the reference is taken from the annotation; one query carries the reference's own name (the reference genome left
		// in the alignment): it is a query like any other
		m.Rows[rapid.IntRange(0, len(m.Rows)-1).Draw(t, "whichQuery")].ID = a.RefName
	}
	if withRef {
		m.RefID = a.RefName
		at := rapid.IntRange(0, len(m.Rows)).Draw(t, "refAt")
		if rapid.Bool().Draw(t, "refFirst") {
			at = 0
		}
		ref := FaRec{ID: a.RefName, Desc: genDesc(t, "refDesc"), Seq: randomCase(t, build([]byte(a.Ref), map[int]string{}), "refCase")}
		m.Rows = append(m.Rows[:at], append([]FaRec{ref}, m.Rows[at:]...)...)
		m.RefAt = at
	}
	w := len(m.Rows[0].Seq)
	m.Layout = genLayout(t, w)
	return m
}

func genMSA(t *rapid.T, a Anno, maxQueries int, indelHeavy bool) MsaCase {
	n := rapid.IntRange(1, maxQueries).Draw(t, "nQueries")
	many := sizeClass(t, "msa") == 1
	withRef := indelHeavy || rapid.IntRange(0, 4).Draw(t, "refFromAnno") != 0
	var qs []varQuery
	for i := 0; i < n; i++ {
		qs = append(qs, genVarQuery(t, a, genID(t, i, "qname"), withRef, indelHeavy))
	}
	if many {
		// more rows than the reader -> worker channel can buffer (50 + threads): copies of the generated queries
		base := len(qs)
		for i := base; i < rapid.IntRange(60, 90).Draw(t, "manyRows"); i++ {
			src := qs[i%base]
			qs = append(qs, varQuery{Name: genID(t, i, "qname"), Row: append([]byte(nil), src.Row...), Ins: src.Ins})
		}
	}
	return assembleMSA(t, a, qs, withRef, withRef && rapid.IntRange(0, 2).Draw(t, "extraBothGap") == 0)
}
