package harness

// C17 — genetic code and nucleotide tables sound and complete over IUPAC.
// Exhaustive: 15^3 codons (strict and lenient), 32 accepted characters for the complement /
// encode / decode tables (text and bit-encoded); random strings for the involution laws.

import (
	"fmt"
	"strings"
	"testing"

	"github.com/virus-evolution/gofasta/pkg/alphabet"
	"github.com/virus-evolution/gofasta/pkg/encoding"
	"github.com/virus-evolution/gofasta/pkg/fastaio"
	"pgregory.net/rapid"
)

type c17Case struct {
	Kind string `json:"kind"` // codon | char | string
	Arg  string `json:"arg"`
}

const accepted32 = "ACGTRYSWKMBDHVNacgtryswkmbdhvn-?"

func checkC17(c c17Case, o *Obs) error {
	switch c.Kind {
	case "codon":
		want := translateCodonModel(c.Arg)
		amb := false
		for i := 0; i < 3; i++ {
			if !isACGT(c.Arg[i]) {
				amb = true
			}
		}
		if amb {
			o.NonTrivial()
			o.Label("codon:ambiguous")
			if want != 'X' {
				o.Label("codon:ambiguous-resolvable")
			}
		} else {
			o.Label("codon:plain")
		}
		got, err := alphabet.Translate(c.Arg, false)
		if err != nil || got != string(want) {
			return fmt.Errorf("Translate(%q,false) = %q,%v; every-expansion rule gives %q", c.Arg, got, err, string(want))
		}
		gotS, errS := alphabet.Translate(c.Arg, true)
		if want == 'X' {
			if errS == nil {
				return fmt.Errorf("Translate(%q,strict) = %q without error; codon is not uniquely translatable", c.Arg, gotS)
			}
		} else if errS != nil || gotS != string(want) {
			return fmt.Errorf("Translate(%q,strict) = %q,%v; want %q", c.Arg, gotS, errS, string(want))
		}
		// the dictionary itself must not contain an entry the rule does not justify
		if v, ok := alphabet.MakeCodonDict()[c.Arg]; ok != (want != 'X') || (ok && v != string(want)) {
			return fmt.Errorf("MakeCodonDict[%q] = %q,%v; want present=%v value %q", c.Arg, v, ok, want != 'X', string(want))
		}
	case "variants-codons":
		// translation as observed through `variants`: every IUPAC codon as the query codon of a small gene, on either
		// strand, in either annotation format; each row against the coordinate-level oracle of C04 (an amino-acid record
		// exactly when the every-expansion rule gives one product that differs from the reference's, otherwise its SNPs)
		o.NonTrivial()
		o.Label("variants-codon-sweep")
		return checkC17ThroughVariants(c.Arg, o)
	case "char":
		o.NonTrivial()
		ch := c.Arg[0]
		o.Label("char")
		CA := alphabet.MakeCompArray()
		EA := encoding.MakeEncodingArray()
		EAH := encoding.MakeEncodingArrayHardGaps()
		DA := encoding.MakeDecodingArray()
		ECA := alphabet.MakeEncodedCompArray()
		got := CA[ch]
		gs, ok := baseSet(got, false)
		if !ok {
			return fmt.Errorf("complement of %q is %q, not a nucleotide symbol", ch, got)
		}
		if gs != compSet(mustSet(ch, false)) {
			return fmt.Errorf("complement of %q is %q which denotes a different base set than the base-wise complement", ch, got)
		}
		if (ch >= 'a' && ch <= 'z') != (got >= 'a' && got <= 'z') {
			return fmt.Errorf("complement of %q is %q: letter case changed", ch, got)
		}
		if CA[got] != ch {
			return fmt.Errorf("complement is not an involution on %q: %q -> %q", ch, got, CA[got])
		}
		// encode/decode round trip
		if EA[ch] == 0 {
			return fmt.Errorf("accepted character %q has no encoding", ch)
		}
		if DA[EA[ch]] != string(upper(ch)) {
			return fmt.Errorf("decode(encode(%q)) = %q", ch, DA[EA[ch]])
		}
		if EAH[ch] == 0 || DA[EAH[ch]] != string(upper(ch)) {
			return fmt.Errorf("hard-gap decode(encode(%q)) = %q", ch, DA[EAH[ch]])
		}
		// encoded complement agrees with text complement
		if ECA[EA[ch]] != EA[got] {
			return fmt.Errorf("encoded complement of %q (code %d) is code %d = %q; text complement is %q", ch, EA[ch], ECA[EA[ch]], DA[ECA[EA[ch]]], got)
		}
		if ECA[ECA[EA[ch]]] != EA[ch] {
			return fmt.Errorf("encoded complement is not an involution on %q", ch)
		}
		// score arrays agree with the documented 12/|set| rule
		SA := encoding.MakeScoreArray()
		ESA := encoding.MakeEncodedScoreArray()
		wantScore := int64(12 / popcount4(mustSet(ch, false)))
		if SA[ch] != wantScore || ESA[EA[ch]] != wantScore {
			return fmt.Errorf("score of %q: text %d encoded %d, documented %d", ch, SA[ch], ESA[EA[ch]], wantScore)
		}
	case "nonchar":
		ch := c.Arg[0]
		o.Label("nonchar")
		if encoding.MakeEncodingArray()[ch] != 0 || encoding.MakeEncodingArrayHardGaps()[ch] != 0 {
			return fmt.Errorf("byte %q outside the alphabet has an encoding", ch)
		}
	case "codons":
		// a sequence of codons translates codon by codon: no state may leak from one codon to the next
		o.NonTrivial()
		o.Label("multi-codon")
		want := translateModel(c.Arg)
		got, err := alphabet.Translate(c.Arg, false)
		if err != nil || got != want {
			return fmt.Errorf("Translate(%q,false) = %q,%v; codon by codon the every-expansion rule gives %q", c.Arg, got, err, want)
		}
		gotS, errS := alphabet.Translate(c.Arg, true)
		if strings.Contains(want, "X") {
			if errS == nil {
				return fmt.Errorf("Translate(%q,strict) = %q without error; codon-by-codon translation is %q", c.Arg, gotS, want)
			}
		} else if errS != nil || gotS != want {
			return fmt.Errorf("Translate(%q,strict) = %q,%v; want %q", c.Arg, gotS, errS, want)
		}
	case "string":
		s := c.Arg
		o.LabelIf(len(s) >= 2, "string:len>=2")
		if len(s) >= 2 {
			o.NonTrivial()
		}
		var wantC strings.Builder
		for i := 0; i < len(s); i++ {
			wantC.WriteByte(modelCompChar(s[i]))
		}
		wc := wantC.String()
		wrc := reverseString(wc)
		if g := alphabet.Complement(s); g != wc {
			return fmt.Errorf("alphabet.Complement(%q) = %q want %q", s, g, wc)
		}
		if g := alphabet.ReverseComplement(s); g != wrc {
			return fmt.Errorf("alphabet.ReverseComplement(%q) = %q want %q", s, g, wrc)
		}
		if g := alphabet.ReverseComplement(alphabet.ReverseComplement(s)); g != s {
			return fmt.Errorf("ReverseComplement twice is not the identity on %q: %q", s, g)
		}
		fr := fastaio.FastaRecord{ID: "x", Description: "x y", Seq: s, Idx: 3}
		if g := fr.Complement(); g.Seq != wc || g.ID != "x" || g.Idx != 3 {
			return fmt.Errorf("FastaRecord.Complement(%q) = %+v want %q", s, g, wc)
		}
		if g := fr.ReverseComplement(); g.Seq != wrc {
			return fmt.Errorf("FastaRecord.ReverseComplement(%q) = %q want %q", s, g.Seq, wrc)
		}
		if g := fr.ReverseComplement().ReverseComplement(); g.Seq != s {
			return fmt.Errorf("FastaRecord.ReverseComplement twice: %q -> %q", s, g.Seq)
		}
		efr := fr.Encode()
		if g := efr.Decode().Seq; g != strings.ToUpper(s) {
			return fmt.Errorf("Encode/Decode(%q) = %q", s, g)
		}
		if g := efr.Complement().Decode().Seq; g != strings.ToUpper(wc) {
			return fmt.Errorf("EncodedFastaRecord.Complement(%q) decodes to %q want %q", s, g, strings.ToUpper(wc))
		}
		if g := efr.ReverseComplement().Decode().Seq; g != strings.ToUpper(wrc) {
			return fmt.Errorf("EncodedFastaRecord.ReverseComplement(%q) decodes to %q want %q", s, g, strings.ToUpper(wrc))
		}
		if g := efr.ReverseComplement().ReverseComplement().Decode().Seq; g != strings.ToUpper(s) {
			return fmt.Errorf("EncodedFastaRecord.ReverseComplement twice: %q -> %q", s, g)
		}
		// the receiver must not be modified by ReverseComplement
		if g := efr.Decode().Seq; g != strings.ToUpper(s) {
			return fmt.Errorf("EncodedFastaRecord.ReverseComplement modified its receiver: %q -> %q", s, g)
		}
	default:
		return fmt.Errorf("bad case kind %q", c.Kind)
	}
	return nil
}

// modelCompChar: complement of one accepted character, preserving case; '-' and '?' are fixed.
func modelCompChar(ch byte) byte {
	if ch == '-' || ch == '?' {
		return ch
	}
	c := complementBase(upper(ch))
	if ch >= 'a' && ch <= 'z' {
		return lower(c)
	}
	return c
}

func reverseString(s string) string {
	b := []byte(s)
	for i, j := 0, len(b)-1; i < j; i, j = i+1, j-1 {
		b[i], b[j] = b[j], b[i]
	}
	return string(b)
}

func genC17(t *rapid.T) c17Case {
	if rapid.IntRange(0, 2).Draw(t, "kind") == 0 {
		// 2..8 codons: resolvable ambiguous codons, plain codons and untranslatable ones mixed
		resolvable := []string{"YTA", "YTG", "YTR", "MGA", "MGG", "MGR", "TRA", "TAR", "CTN", "ACN", "AGY", "ATH", "TTR", "GGN", "AAR"}
		var sb strings.Builder
		for k := rapid.IntRange(2, 8).Draw(t, "ncodons"); k > 0; k-- {
			switch rapid.IntRange(0, 3).Draw(t, "codonKind") {
			case 0:
				sb.WriteString(rapid.SampledFrom(resolvable).Draw(t, "resolvable"))
			case 1:
				sb.WriteString(genACGT(t, 3, "plainCodon"))
			default:
				for i := 0; i < 3; i++ {
					sb.WriteByte(iupac15[rapid.IntRange(0, 14).Draw(t, "anySym")])
				}
			}
		}
		return c17Case{Kind: "codons", Arg: sb.String()}
	}
	n := rapid.IntRange(0, 40).Draw(t, "len")
	if rapid.IntRange(0, 5).Draw(t, "longString") == 0 {
		n = rapid.IntRange(41, 300).Draw(t, "longLen")
	}
	b := make([]byte, n)
	for i := range b {
		b[i] = accepted32[rapid.IntRange(0, len(accepted32)-1).Draw(t, "ch")]
	}
	s := string(b)
	// padded alignments: long runs of missing-data symbols (mixed -, N, n, ?) at either end or inside
	run := func(label string) string {
		k := rapid.SampledFrom([]int{0, 0, 3, 15, 16, 17, 33, 64}).Draw(t, label+"Len")
		r := make([]byte, k)
		for i := range r {
			r[i] = "--NNn?"[rapid.IntRange(0, 5).Draw(t, label+"Sym")]
		}
		return string(r)
	}
	if rapid.IntRange(0, 2).Draw(t, "padded") == 0 {
		s = run("lead") + s + run("mid") + s[len(s)/2:] + run("trail")
	}
	return c17Case{Kind: "string", Arg: s}
}

func TestC17(t *testing.T) {
	n := runEnumerated(t, "C17", func(yield func(c17Case) bool) {
		for i := 0; i < 15; i++ {
			for j := 0; j < 15; j++ {
				for k := 0; k < 15; k++ {
					if !yield(c17Case{Kind: "codon", Arg: string([]byte{iupac15[i], iupac15[j], iupac15[k]})}) {
						return
					}
				}
			}
		}
		for i := 0; i < len(accepted32); i++ {
			if !yield(c17Case{Kind: "char", Arg: accepted32[i : i+1]}) {
				return
			}
		}
		// every codon followed by each of a few followers, and preceded by it (state carried between codons)
		followers := []string{"GCT", "ATG", "TAA", "CTN", "YTR", "NNN", "RAY", "MGR"}
		for i := 0; i < 15; i++ {
			for j := 0; j < 15; j++ {
				for k := 0; k < 15; k++ {
					c := string([]byte{iupac15[i], iupac15[j], iupac15[k]})
					for _, f := range followers {
						if !yield(c17Case{Kind: "codons", Arg: c + f}) || !yield(c17Case{Kind: "codons", Arg: f + c + f}) {
							return
						}
					}
				}
			}
		}
		for ch := 1; ch < 128; ch++ {
			if strings.IndexByte(accepted32, byte(ch)) >= 0 {
				continue
			}
			if !yield(c17Case{Kind: "nonchar", Arg: string([]byte{byte(ch)})}) {
				return
			}
		}
		// the last three: reference codons that carry an ambiguity code and still translate (K, A, F) - on the reverse strand the
		// genome holds their complements (Y, N, R)
		for _, refCodon := range []string{"AAA", "GGG", "CTT", "AAR", "GCN", "TTY"} {
			for _, strand := range []string{"+", "-"} {
				for _, format := range []string{"gb", "gff"} {
					if !yield(c17Case{Kind: "variants-codons", Arg: refCodon + strand + format}) {
						return
					}
					// the same sweep with another changed (and translatable) codon earlier in the gene: what one codon's
					// translation leaves behind must not leak into the next
					if !yield(c17Case{Kind: "variants-codons", Arg: refCodon + strand + format + "+prev"}) {
						return
					}
				}
			}
		}
	}, checkC17)
	stats.Extra["exhaustive_cases"] = n
	stats.Extra["exhaustive"] = true
	if t.Failed() {
		return
	}
	runProp(t, "C17", genC17, checkC17)
}

// checkC17ThroughVariants: arg = reference codon + strand + annotation format, e.g. "AAA+gff". One alignment holds the
// reference and 3375 queries, query i carrying the i-th IUPAC codon in place of the reference codon (second codon of the
// gene ATG <codon> GCT TAA).
func checkC17ThroughVariants(arg string, o *Obs) error {
	refCodon, strand, format := arg[:3], arg[3:4], arg[4:]
	prevRef, prevQry := "", ""
	if strings.HasSuffix(format, "+prev") {
		format = strings.TrimSuffix(format, "+prev")
		prevRef, prevQry = "AAA", "AGA" // K -> R in every query, one codon upstream of the swept codon
	}
	gene := "ATG" + prevRef + refCodon + "GCT" + "TAA"
	place := func(g string) string { // the gene as it sits in the genome
		if strand == "+" {
			return g
		}
		b := []byte(g)
		for i, j := 0, len(b)-1; i < j; i, j = i+1, j-1 {
			b[i], b[j] = b[j], b[i]
		}
		for i := range b {
			if b[i] != '-' && b[i] != '?' { // a gap stays a gap, an unknown stays unknown
				b[i] = complementBase(b[i])
			}
		}
		return string(b)
	}
	ref := "CC" + place(gene) + "CC"
	f := Feat{Name: "g", Strand: 1, Segs: []Seg{{3, 2 + len(gene)}}, CodonStart: 1, GFFType: "CDS"}
	if strand == "-" {
		f.Strand = -1
	}
	a := Anno{RefName: "ref", Ref: ref, Feats: []Feat{f}}
	m := MsaCase{RefID: "ref", RefAt: 0, Layout: plainLayout()}
	m.Rows = append(m.Rows, FaRec{ID: "ref", Seq: ref})
	n := 0
	// all 17 alignment symbols: a gap or '?' inside the codon makes it untranslatable (X), it is not an N
	for i := 0; i < 17; i++ {
		for j := 0; j < 17; j++ {
			for k := 0; k < 17; k++ {
				q := string([]byte{alpha17[i], alpha17[j], alpha17[k]})
				m.Rows = append(m.Rows, FaRec{ID: fmt.Sprintf("q%d_%s", n, strings.NewReplacer("-", "gap", "?", "unk").Replace(q)), Seq: "CC" + place("ATG"+prevQry+q+"GCT"+"TAA") + "CC"})
				n++
			}
		}
	}
	c := varCase{Anno: a, Format: format, GFF: gffOpts{SequenceRegion: true, WithFasta: true}, Form: "msa", Msa: &m, Threads: 2}
	return checkVariantsAgainstModel(c, &Obs{})
}
