package harness

// C13 — --aggregate frequencies are exactly the per-sequence results, counted.

import (
	"bytes"
	"fmt"
	"sort"
	"strconv"
	"strings"
	"testing"

	"github.com/virus-evolution/gofasta/pkg/snps"
	"pgregory.net/rapid"
)

type c13Case struct {
	Kind      string   `json:"kind"` // snps | variants (msa or sam form inside Var)
	Var       *varCase `json:"var,omitempty"`
	Snps      *c03Case `json:"snps,omitempty"`
	AppendSNP bool     `json:"append_snps"`
	ThreshNum int      `json:"thresh_num"` // threshold = num/den + shift
	ThreshDen int      `json:"thresh_den"`
	Shift     float64  `json:"shift"`
}

func (c c13Case) threshold() float64 {
	if c.ThreshDen == 0 {
		return float64(c.ThreshNum) // 0 or 1
	}
	return float64(c.ThreshNum)/float64(c.ThreshDen) + c.Shift
}

func checkC13(c c13Case, o *Obs) error {
	// the drawn threshold first, then every frequency that actually occurs in the per-sequence output
	// (exactly k/n as a float64, the value a user gets from counting), up to 8 of them
	ks, n, err := checkC13At(c, o, c.threshold(), true)
	if err != nil {
		return err
	}
	o.LabelIf(n >= 25, "sequences>=25")
	tried := 0
	for _, k := range ks {
		if tried == 8 {
			break
		}
		tried++
		if _, _, err := checkC13At(c, nil, float64(k)/float64(n), false); err != nil {
			return err
		}
		stats.count("thresholds_equal_to_an_occurring_frequency", 1)
	}
	return nil
}

// checkC13At runs the aggregate mode with threshold th and compares it with the counted per-sequence output.
// It returns the distinct occurrence counts and the number of sequences.
func checkC13At(c c13Case, o *Obs, th float64, first bool) ([]int, int, error) {
	distinct, n, err := checkC13Core(c, o, th)
	return distinct, n, err
}

func checkC13Core(c c13Case, o *Obs, th float64) ([]int, int, error) {
	o.Label("kind:" + c.Kind)
	var perSeq, agg string
	var header string
	var anno Anno
	switch c.Kind {
	case "snps":
		s := c.Snps
		refTxt, alnTxt := renderFasta([]FaRec{s.Ref}, s.RefLay), renderFasta(s.Recs, s.AlnLay)
		var a, b bytes.Buffer
		if err := mustRun("snps.SNPs", func() error {
			return snps.SNPs(strings.NewReader(refTxt), strings.NewReader(alnTxt), s.HardGaps, false, 0, &a)
		}); err != nil {
			return nil, 0, err
		}
		if err := mustRun("snps.SNPs(aggregate)", func() error {
			return snps.SNPs(strings.NewReader(refTxt), strings.NewReader(alnTxt), s.HardGaps, true, th, &b)
		}); err != nil {
			return nil, 0, err
		}
		perSeq, agg, header = a.String(), b.String(), "SNP,frequency"
	default:
		vc := *c.Var
		anno = vc.effectiveAnno()
		o.Label("form:" + vc.Form)
		var err error
		perSeq, err = runVariants(vc, varRunOpts{Start: -1, End: -1, AppendSNP: c.AppendSNP})
		if err != nil {
			return nil, 0, fmt.Errorf("%v\n%s", err, vc.describe())
		}
		agg, err = runVariants(vc, varRunOpts{Start: -1, End: -1, AppendSNP: c.AppendSNP, Aggregate: true, Threshold: th})
		if err != nil {
			return nil, 0, fmt.Errorf("%v\n%s", err, vc.describe())
		}
		header = "mutation,frequency"
	}
	// expected from the per-sequence output
	pl := splitLines(perSeq)
	if len(pl) < 1 {
		return nil, 0, fmt.Errorf("empty per-sequence output")
	}
	rows := pl[1:]
	n := len(rows)
	counts := map[string]int{}
	for _, r := range rows {
		i := strings.IndexByte(r, ',')
		seen := map[string]bool{}
		for _, m := range splitMuts(r[i+1:]) {
			if !seen[m] {
				seen[m] = true
				counts[m]++
			}
		}
	}
	want := map[string]string{}
	binding, partial := false, false
	for m, k := range counts {
		f := float64(k) / float64(n)
		if k < n {
			partial = true
		}
		if f >= th {
			want[m] = strconv.FormatFloat(f, 'f', 9, 64)
		} else {
			binding = true
		}
	}
	o.LabelIf(binding, "threshold-binding")
	o.LabelIf(partial, "partial-frequency")
	o.LabelIf(c.ThreshDen != 0 && c.Shift == 0, "threshold-equals-a-frequency-candidate")
	if n >= 2 && partial && binding {
		o.NonTrivial()
	}
	al := splitLines(agg)
	if len(al) < 1 || al[0] != header {
		return nil, 0, fmt.Errorf("bad aggregate header: %q", trunc(agg, 200))
	}
	got := map[string]string{}
	var order []string
	for _, l := range al[1:] {
		i := strings.LastIndexByte(l, ',')
		if i < 0 {
			return nil, 0, fmt.Errorf("bad aggregate line %q", l)
		}
		if _, dup := got[l[:i]]; dup {
			return nil, 0, fmt.Errorf("mutation %q listed twice in --aggregate output", l[:i])
		}
		got[l[:i]] = l[i+1:]
		order = append(order, l[:i])
	}
	for m, f := range want {
		g, ok := got[m]
		if !ok {
			return nil, 0, fmt.Errorf("--aggregate (threshold %v) omits %s which occurs in %d of %d sequences (frequency %s)\nper-sequence:\n%s\naggregate:\n%s", th, m, counts[m], n, f, trunc(perSeq, 800), trunc(agg, 800))
		}
		if g != f {
			return nil, 0, fmt.Errorf("--aggregate gives %s frequency %s; it occurs in %d of %d sequences = %s\nper-sequence:\n%s", m, g, counts[m], n, f, trunc(perSeq, 800))
		}
	}
	for m := range got {
		if _, ok := want[m]; !ok {
			return nil, 0, fmt.Errorf("--aggregate (threshold %v) lists %s (%s) but per-sequence count is %d of %d\nper-sequence:\n%s", th, m, got[m], counts[m], n, trunc(perSeq, 800))
		}
	}
	if c.Kind != "snps" && c.Var.CLI && gofastaBin() != "" {
		dir, cleanup := caseDir("c13cli")
		defer cleanup()
		if err := cliAgree(o, "variants --aggregate", agg, c.Var.cliArgs(dir, varRunOpts{Start: -1, End: -1, AppendSNP: c.AppendSNP, Aggregate: true, Threshold: th})...); err != nil {
			return nil, 0, err
		}
	}
	if c.Kind == "snps" && c.Snps.CLI && gofastaBin() != "" {
		dir, cleanup := caseDir("c13cli")
		defer cleanup()
		s := c.Snps
		args := []string{"snps", "-r", writeFile(dir, "ref.fa", renderFasta([]FaRec{s.Ref}, s.RefLay)), "-q", writeFile(dir, "aln.fa", renderFasta(s.Recs, s.AlnLay)), "--aggregate", "--threshold", strconv.FormatFloat(th, 'g', -1, 64)}
		if s.HardGaps {
			args = append(args, "--hard-gaps")
		}
		if err := cliAgree(o, "snps --aggregate", agg, args...); err != nil {
			return nil, 0, err
		}
	}
	// ordered by genomic position
	cur := -1 << 30
	for _, m := range order {
		var lo, hi int
		if c.Kind == "snps" {
			p, err := strconv.Atoi(m[1 : len(m)-1])
			if err != nil {
				return nil, 0, fmt.Errorf("bad SNP %q", m)
			}
			lo, hi = p, p
		} else {
			var err error
			lo, hi, err = mutInterval(m, anno)
			if err != nil {
				return nil, 0, err
			}
			if strings.HasPrefix(m, "aa:") {
				lo, hi = lo-2, hi+2 // any coordinate of the codon (gofasta: first base of the codon, computed from its last)
			}
		}
		if lo > cur {
			cur = lo
		}
		if cur > hi {
			return nil, 0, fmt.Errorf("--aggregate output is not ordered by genomic position at %s:\n%s", m, trunc(agg, 800))
		}
	}
	var distinct []int
	seenK := map[int]bool{}
	for _, k := range counts {
		if !seenK[k] {
			seenK[k] = true
			distinct = append(distinct, k)
		}
	}
	sort.Ints(distinct)
	return distinct, n, nil
}

func genC13(t *rapid.T) c13Case {
	c := c13Case{}
	kind := rapid.SampledFrom([]string{"snps", "variants", "variants", "variants"}).Draw(t, "kind")
	c.Kind = kind
	n := 0
	if kind == "snps" {
		s := genC03(t)
		// make mutations recur: copies of earlier records
		for i := range s.Recs {
			if i > 0 && rapid.Bool().Draw(t, "copyRec") {
				s.Recs[i].Seq = s.Recs[rapid.IntRange(0, i-1).Draw(t, "copyOf")].Seq
			}
		}
		if rapid.IntRange(0, 2).Draw(t, "manySeqs") == 0 {
			base := len(s.Recs)
			for k := rapid.IntRange(20, 125).Draw(t, "nDupMany"); k > 0; k-- {
				s.Recs = append(s.Recs, FaRec{ID: fmt.Sprintf("dup%d", k), Seq: s.Recs[rapid.IntRange(0, base-1).Draw(t, "dupOf")].Seq})
			}
		}
		c.Snps = &s
		n = len(s.Recs)
	} else {
		vc := genVarCase(t, "aa")
		if vc.Form == "msa" {
			// recurrences: duplicate some query rows under new names
			qs := vc.Msa.queries()
			extra := rapid.IntRange(0, 5).Draw(t, "nDup")
			if rapid.IntRange(0, 2).Draw(t, "manySeqs") == 0 {
				extra = rapid.IntRange(20, 125).Draw(t, "nDupMany")
			}
			for k := 0; k < extra && len(qs) > 0; k++ {
				src := qs[rapid.IntRange(0, len(qs)-1).Draw(t, "dupOf")]
				id := fmt.Sprintf("dup%d", k)
				if rapid.IntRange(0, 3).Draw(t, "sameNameAgain") == 0 {
					id = src.ID // the same sequence under the same name a second time (files get concatenated): still one more sequence
				}
				vc.Msa.Rows = append(vc.Msa.Rows, FaRec{ID: id, Seq: src.Seq})
			}
			n = len(vc.Msa.queries())
		} else {
			names := vc.Sam.queryNames()
			extra := rapid.IntRange(0, 4).Draw(t, "nDup")
			if rapid.IntRange(0, 2).Draw(t, "manySeqs") == 0 {
				extra = rapid.IntRange(20, 110).Draw(t, "nDupMany")
			}
			for k := 0; k < extra; k++ {
				src := names[rapid.IntRange(0, len(names)-1).Draw(t, "dupOf")]
				for _, r := range vc.Sam.recordsOf(src) {
					r.Name = fmt.Sprintf("dup%d", k)
					vc.Sam.Recs = append(vc.Sam.Recs, r)
				}
			}
			n = len(vc.Sam.queryNames())
		}
		c.Var = &vc
		c.AppendSNP = rapid.Bool().Draw(t, "appendSNP")
	}
	switch rapid.IntRange(0, 5).Draw(t, "threshKind") {
	case 0:
		c.ThreshNum = 0
	case 1:
		c.ThreshNum = 1
	default:
		c.ThreshDen = n
		c.ThreshNum = rapid.IntRange(1, n).Draw(t, "threshNum")
		c.Shift = rapid.SampledFrom([]float64{0, 0, 1e-6, -1e-6}).Draw(t, "threshShift")
	}
	return c
}

func TestC13(t *testing.T) { runProp(t, "C13", genC13, checkC13) }
