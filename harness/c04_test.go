package harness

// C04 — variants loses no nucleotide difference and every aa call is a true translation.
// (The same cases also exercise C05's indel coordinates; C05 has its own generator emphasis.)

import (
	"bytes"
	"fmt"
	"sort"
	"strconv"
	"strings"
	"testing"

	"github.com/virus-evolution/gofasta/pkg/sam"
	"github.com/virus-evolution/gofasta/pkg/variants"
	"pgregory.net/rapid"
)

type varCase struct {
	Anno        Anno      `json:"anno"`
	Format      string    `json:"format"` // gb | gff
	GFF         gffOpts   `json:"gff_opts"`
	Form        string    `json:"form"` // msa | sam
	Msa         *MsaCase  `json:"msa,omitempty"`
	Sam         *SamInput `json:"sam,omitempty"`
	RefFromFile bool      `json:"ref_from_file"` // sam form: --reference given
	Threads     int       `json:"threads"`
	CLI         bool      `json:"cli,omitempty"`
}

// cliArgs renders the case as a gofasta command line (files written into dir).
func (c varCase) cliArgs(dir string, r varRunOpts) []string {
	anno := writeFile(dir, "anno."+c.Format, c.annoText())
	var args []string
	if c.Form == "msa" {
		args = []string{"variants", "--msa", writeFile(dir, "aln.fasta", c.Msa.render()), "-t", strconv.Itoa(c.Threads)}
		if c.Format == "gb" && c.Threads%2 == 0 {
			args = append(args, "--genbank", anno) // legacy spelling of -a for GenBank files
		} else {
			args = append(args, "-a", anno)
		}
		if c.Msa.RefID != "" {
			args = append(args, "--reference", c.Msa.RefID)
		}
	} else {
		args = []string{"sam", "variants", "-s", writeFile(dir, "in.sam", c.Sam.render()), "-t", strconv.Itoa(c.Threads)}
		if c.Format == "gb" && c.Threads%2 == 0 {
			args = append(args, "--genbank", anno) // legacy spelling of -a for GenBank files
		} else {
			args = append(args, "-a", anno)
		}
		if c.RefFromFile {
			args = append(args, "-r", writeFile(dir, "ref.fasta", c.Sam.refFasta()))
		}
	}
	if r.AppendSNP {
		args = append(args, "--append-snps")
	}
	if r.Start > 0 {
		args = append(args, "--start", strconv.Itoa(r.Start))
	}
	if r.End > 0 {
		args = append(args, "--end", strconv.Itoa(r.End))
	}
	if r.Aggregate {
		args = append(args, "--aggregate", "--threshold", strconv.FormatFloat(r.Threshold, 'g', -1, 64))
	}
	return args
}

func (c varCase) annoText() string {
	if c.Format == "gb" {
		return c.Anno.renderGenbank()
	}
	g := c.GFF
	if !g.WithFasta && !((c.Form == "msa" && c.Msa != nil && c.Msa.RefID != "") || (c.Form == "sam" && c.RefFromFile)) {
		g.WithFasta = true // the annotation is the only source of the reference in this case
	}
	return c.Anno.renderGFF(g)
}

// effectiveAnno: the features the chosen format can express (GenBank CDS need a /gene).
func (c varCase) effectiveAnno() Anno {
	if c.Format != "gb" {
		return c.Anno
	}
	a := c.Anno
	a.Feats = nil
	for _, f := range c.Anno.Feats {
		if f.Name != "" {
			a.Feats = append(a.Feats, f)
		}
	}
	return a
}

type varRunOpts struct {
	Start, End int
	Aggregate  bool
	Threshold  float64
	AppendSNP  bool
}

func defaultVarRun(appendSNP bool) varRunOpts {
	return varRunOpts{Start: -1, End: -1, AppendSNP: appendSNP}
}

// runVariants runs `variants` (msa form) or `sam variants` (sam form) in-process.
func runVariants(c varCase, r varRunOpts) (string, error) {
	var out bytes.Buffer
	anno := c.annoText()
	var err error
	if c.Form == "msa" {
		msa := c.Msa.render()
		err = mustRun("variants.Variants", func() error {
			return variants.Variants(bytes.NewReader([]byte(msa)), false, c.Msa.RefID, strings.NewReader(anno), c.Format, &out, r.Start, r.End, r.Aggregate, r.Threshold, r.AppendSNP, c.Threads)
		})
	} else {
		samTxt := c.Sam.render()
		refTxt := c.Sam.refFasta()
		err = mustRun("sam.Variants", func() error {
			return sam.Variants(strings.NewReader(samTxt), strings.NewReader(refTxt), c.RefFromFile, strings.NewReader(anno), c.Format, &out, r.Start, r.End, r.Aggregate, r.Threshold, r.AppendSNP, c.Threads)
		})
	}
	return out.String(), err
}

// queryViews: per query (input order) the pairwise relation to the reference.
func (c varCase) queryViews() (names []string, views map[string]pairView, err error) {
	views = map[string]pairView{}
	if c.Form == "msa" {
		R := c.Msa.refRow(c.Anno)
		for _, q := range c.Msa.queries() {
			v, e := viewFromRows(R, q.Seq)
			if e != nil {
				return nil, nil, e
			}
			names = append(names, q.ID)
			views[q.ID] = v
		}
		return
	}
	L := len(c.Sam.Ref)
	for _, n := range c.Sam.queryNames() {
		q := projectQuery(c.Sam.recordsOf(n), L)
		rr, qr := q.fullPairRows(c.Sam.Ref, false)
		v, e := viewFromRows(rr, qr)
		if e != nil {
			return nil, nil, e
		}
		names = append(names, n)
		views[n] = v
	}
	return
}

func (c varCase) describe() string {
	var sb strings.Builder
	sb.WriteString(fmt.Sprintf("format=%s form=%s ref=%s\n", c.Format, c.Form, c.Anno.Ref))
	for _, f := range c.Anno.Feats {
		sb.WriteString(fmt.Sprintf("  feature %q strand %+d segs %v codon_start %d type %s\n", f.Name, f.Strand, f.Segs, f.CodonStart, f.GFFType))
	}
	if c.Form == "msa" {
		sb.WriteString(trunc(c.Msa.render(), 1200))
	} else {
		sb.WriteString(trunc(c.Sam.render(), 1200))
	}
	return sb.String()
}

// checkVariantsAgainstModel: the core of C04/C05 — every row against the coordinate-level oracle.
func checkVariantsAgainstModel(c varCase, o *Obs) error {
	names, views, err := c.queryViews()
	if err != nil {
		return fmt.Errorf("harness: %v", err)
	}
	out, err := runVariants(c, defaultVarRun(true))
	if err != nil {
		return fmt.Errorf("%v\n%s", err, c.describe())
	}
	order, rows, err := parseVariantsOutput(out)
	if err != nil {
		return err
	}
	if strings.Join(order, ",") != strings.Join(names, ",") {
		return fmt.Errorf("rows %v; expected one row per query in input order %v\n%s", order, names, c.describe())
	}
	ea := c.effectiveAnno()
	for _, n := range names {
		if err := checkVariantRow(rows[n], ea, views[n], o); err != nil {
			return fmt.Errorf("query %s: %v\n%s", n, err, c.describe())
		}
	}
	if c.CLI && gofastaBin() != "" {
		dir, cleanup := caseDir("varcli")
		defer cleanup()
		what := "variants"
		if c.Form == "sam" {
			what = "sam variants"
		}
		if err := cliAgree(o, what, out, c.cliArgs(dir, defaultVarRun(true))...); err != nil {
			return err
		}
	}
	// (d) without --append-snps: the same rows with the parenthesised parts removed
	out2, err := runVariants(c, defaultVarRun(false))
	if err != nil {
		return err
	}
	_, rows2, err := parseVariantsOutput(out2)
	if err != nil {
		return err
	}
	for _, n := range names {
		// compared as multisets: record order is C12's (and C13's) business, not C04's
		if sortedJoin(rows2[n]) != sortedJoin(stripSNPLists(rows[n])) {
			return fmt.Errorf("query %s: without --append-snps %v; with it (lists removed) %v", n, rows2[n], stripSNPLists(rows[n]))
		}
	}
	return nil
}

func sortedJoin(xs []string) string {
	c := append([]string(nil), xs...)
	sort.Strings(c)
	return strings.Join(c, "|")
}

func labelVarCase(c varCase, o *Obs) (nontrivial bool) {
	labelAnno(c.effectiveAnno(), o)
	o.Label("format:" + c.Format)
	o.Label("form:" + c.Form)
	o.LabelIf(c.Format == "gff" && c.GFF.SpecPhases, "gff:spec-phases")
	o.LabelIf(c.Format == "gff" && c.GFF.SortRows, "gff:coordinate-sorted-rows")
	o.LabelIf(c.Format == "gff" && c.GFF.ParentAttr, "gff:parent-attributes")
	o.LabelIf(c.Format == "gff" && !c.GFF.WithFasta, "gff:no-fasta-section")
	o.LabelIf(c.Format == "gff" && c.GFF.NoFinalNL, "gff:no-final-newline")
	names, views, err := c.queryViews()
	if err != nil {
		return false
	}
	o.LabelIf(len(names) > 55, "queries>55")
	ea := c.effectiveAnno()
	for _, n := range names {
		v := views[n]
		snps := v.expectedSNPs()
		aas := v.expectedAAs(ea)
		ind := v.expectedIndels()
		o.LabelIf(v.bothGapCols > 0, "both-gap-columns")
		if len(aas) > 0 && len(snps) > 0 {
			nontrivial = true
		}
		for _, f := range ea.Feats {
			if f.Name == "" {
				for _, p := range f.allPositions() {
					if _, ok := snps[p]; ok {
						o.Label("snp-in-unnamed-feature")
					}
				}
			}
		}
		for _, c := range aas {
			for _, f := range ea.Feats {
				if f.Name == c.Feature {
					o.LabelIf(f.Strand < 0, "aa-in-reverse-feature")
					o.LabelIf(len(f.Segs) > 1, "aa-in-joined-feature")
					lo, hi := c.Pos[0], c.Pos[0]
					for _, p := range c.Pos {
						if p < lo {
							lo = p
						}
						if p > hi {
							hi = p
						}
					}
					o.LabelIf(hi-lo != 2, "aa-codon-spans-join")
				}
			}
			namb := 0
			for _, p := range c.Pos {
				if !isACGT(v.qry[p-1]) {
					o.Label("aa-from-iupac-codon")
					namb++
				}
			}
			o.LabelIf(namb >= 2, "aa-from-doubly-ambiguous-codon")
		}
		for _, f := range ea.Feats {
			for k := 0; k < f.nCodons(); k++ {
				qc := f.codon(k, func(p int) byte { return v.qry[p-1] })
				o.LabelIf(strings.Contains(qc, "-") && strings.Trim(qc, "-") != "", "codon-broken-by-gap")
			}
		}
		o.LabelIf(len(ind) > 0, "has-indel")
	}
	return
}

func checkC04(c varCase, o *Obs) error {
	if labelVarCase(c, o) {
		o.NonTrivial()
	}
	return checkVariantsAgainstModel(c, o)
}

func genVarCase(t *rapid.T, emphasis string) varCase {
	c := varCase{Format: rapid.SampledFrom([]string{"gb", "gff"}).Draw(t, "format")}
	c.Form = rapid.SampledFrom([]string{"msa", "msa", "sam"}).Draw(t, "form")
	ao := annoGenOpts{minRef: 20, maxRef: ifThorough(300, 90), maxFeats: ifThorough(6, 4), allowUnnamed: c.Format == "gff", iupacOutside: true}
	c.GFF = gffOpts{SequenceRegion: rapid.Bool().Draw(t, "seqRegion"), WithFasta: true, GeneRows: rapid.Bool().Draw(t, "geneRows"), SortRows: rapid.Bool().Draw(t, "sortRows"), ParentAttr: rapid.IntRange(0, 2).Draw(t, "parentAttr") == 0}
	if c.Format == "gff" {
		switch rapid.IntRange(0, 2).Draw(t, "gffDialect") {
		case 0:
			ao.codonAligned = true
		case 1:
			c.GFF.SpecPhases = true
		default:
			ao.codonAligned = true
			c.GFF.SpecPhases = true
		}
	}
	c.Anno = genAnno(t, ao)
	c.Threads = rapid.SampledFrom([]int{1, 1, 2, 4}).Draw(t, "threads")
	c.CLI = rapid.IntRange(0, 19).Draw(t, "cli") == 0
	if c.Form == "msa" {
		m := genMSA(t, c.Anno, 4, emphasis == "indel")
		c.Msa = &m
	} else {
		in := genSamInput(t, samGenOpts{maxQueries: 3, maxRecs: 3, allowNoise: true, fixedRef: c.Anno.Ref, fixedRefName: c.Anno.RefName})
		c.Sam = &in
		c.RefFromFile = rapid.IntRange(0, 3).Draw(t, "refFromFile") != 0
		if !c.RefFromFile && rapid.IntRange(0, 2).Draw(t, "queryNamedLikeReference") == 0 {
			// the reference comes from the annotation; one query happens to carry the reference's name (the reference genome
			// aligned to itself, as pipelines that concatenate it to the reads produce)
			names, _ := in.groups()
			if len(names) > 0 && !contains(names, c.Anno.RefName) {
				old := names[0]
				for i := range in.Recs {
					if in.Recs[i].Name == old {
						in.Recs[i].Name = c.Anno.RefName
					}
				}
			}
		}
	}
	// the ##FASTA section is optional when the reference comes from elsewhere (the alignment's own reference record, or -r), and a
	// file need not end in a newline: then the last feature line is the file's last, unterminated line
	if (c.Form == "msa" && c.Msa.RefID != "") || (c.Form == "sam" && c.RefFromFile) {
		if rapid.IntRange(0, 2).Draw(t, "gffWithoutFasta") == 0 {
			c.GFF.WithFasta = false
		}
	}
	c.GFF.NoFinalNL = rapid.IntRange(0, 2).Draw(t, "gffNoFinalNewline") == 0
	return c
}

func genC04(t *rapid.T) varCase { return genVarCase(t, "aa") }

func TestC04(t *testing.T) { runProp(t, "C04", genC04, checkC04) }
