package harness

// C07 — raw, snp and tn93 distances equal their definitions for every pair.

import (
	"bytes"
	"fmt"
	"math"
	"strconv"
	"strings"
	"testing"

	"github.com/virus-evolution/gofasta/pkg/closest"
	"pgregory.net/rapid"
)

type c07Case struct {
	Queries []FaRec `json:"queries"`
	Targets []FaRec `json:"targets"`
	Measure string  `json:"measure"`
	QLay    Layout  `json:"q_layout"`
	TLay    Layout  `json:"t_layout"`
	Threads int     `json:"threads"`
	// spelling of --measure for an additional run of the binary ("" = none): the command line accepts any letter case
	CLIMeasure string `json:"cli_measure,omitempty"`
	// snp only: a --max-dist beyond every possible distance (0 = none given); the table must be the same as without a limit
	HugeMaxDist float64 `json:"huge_max_dist,omitempty"`
}

func fmtDist(measure string, d float64) string {
	if measure == "snp" {
		return strconv.Itoa(int(d))
	}
	return strconv.FormatFloat(d, 'f', 9, 64)
}

// runClosestTable returns dist[q][t] as printed strings, using -n <#targets> --table.
var lastClosestTableText string // raw text of the last in-process table run (shards run their cases one after another)

func runClosestTable(queries, targets []FaRec, ql, tl Layout, measure string, threads int, maxdist ...float64) (map[string]map[string]string, error) {
	md := -1.0
	if len(maxdist) > 0 && maxdist[0] > 0 {
		md = maxdist[0]
	}
	var out bytes.Buffer
	defer func() { lastClosestTableText = out.String() }()
	qt, tt := renderFasta(queries, ql), renderFasta(targets, tl)
	if err := mustRun("closest.ClosestN(table)", func() error {
		return closest.ClosestN(len(targets), md, strings.NewReader(qt), strings.NewReader(tt), measure, &out, true, threads)
	}); err != nil {
		return nil, err
	}
	lines := splitLines(out.String())
	if len(lines) == 0 || lines[0] != "query,target,distance" {
		return nil, fmt.Errorf("bad table header: %q", trunc(out.String(), 200))
	}
	res := map[string]map[string]string{}
	for _, l := range lines[1:] {
		f := strings.Split(l, ",")
		if len(f) != 3 {
			return nil, fmt.Errorf("bad table row %q", l)
		}
		if res[f[0]] == nil {
			res[f[0]] = map[string]string{}
		}
		if _, dup := res[f[0]][f[1]]; dup {
			return nil, fmt.Errorf("pair %s,%s listed twice", f[0], f[1])
		}
		res[f[0]][f[1]] = f[2]
	}
	if len(lines)-1 != len(queries)*len(targets) {
		return nil, fmt.Errorf("-n %d --table returned %d rows for %d queries x %d targets:\n%s", len(targets), len(lines)-1, len(queries), len(targets), trunc(out.String(), 500))
	}
	return res, nil
}

func checkC07(c c07Case, o *Obs) error {
	tab, err := runClosestTable(c.Queries, c.Targets, c.QLay, c.TLay, c.Measure, c.Threads, c.HugeMaxDist)
	if err != nil {
		return err
	}
	o.LabelIf(c.HugeMaxDist > 0, "max-dist-beyond-every-distance")
	libText := lastClosestTableText
	if c.CLIMeasure != "" && gofastaBin() != "" {
		// the same table through the command line, --measure spelled in the drawn letter case; compared with the library
		// output, which the rest of this check holds against the definitions
		dir, cleanup := caseDir("c07cli")
		err := cliAgree(o, "closest", libText, "closest", "--query", writeFile(dir, "q.fa", renderFasta(c.Queries, c.QLay)), "--target", writeFile(dir, "t.fa", renderFasta(c.Targets, c.TLay)),
			"-m", c.CLIMeasure, "-n", strconv.Itoa(len(c.Targets)), "--table", "-t", strconv.Itoa(c.Threads))
		cleanup()
		if err != nil {
			return err
		}
		o.LabelIf(c.CLIMeasure != c.Measure, "cli-arm:measure-in-other-letter-case")
	}
	o.Label("measure:" + c.Measure)
	o.LabelIf(sharesName(c.Queries, c.Targets), "query-named-like-a-target")
	o.LabelIf(len(c.Targets[0].Seq) >= 64, "width>=64")
	o.LabelIf(len(c.Targets[0].Seq)%64 == 0, "width-multiple-of-64")
	o.LabelIf(len(c.Targets[0].Seq) > 65535, "width>65535")
	nt := false
	for _, q := range c.Queries {
		for _, t := range c.Targets {
			pc := countPair(q.Seq, t.Seq)
			got, ok := tab[q.ID][t.ID]
			if !ok {
				return fmt.Errorf("pair %s,%s missing from table", q.ID, t.ID)
			}
			ambCol := false
			for i := 0; i < len(q.Seq); i++ {
				if !isACGT(q.Seq[i]) || !isACGT(t.Seq[i]) {
					ambCol = true
				}
			}
			if ambCol && pc.P1+pc.P2 > 0 && pc.Q > 0 {
				nt = true
			}
			switch c.Measure {
			case "snp":
				if want := fmtDist("snp", pc.snpDist()); got != want {
					return fmt.Errorf("snp distance %s vs %s: gofasta %s, definition %s\nq=%s\nt=%s", q.ID, t.ID, got, want, q.Seq, t.Seq)
				}
			case "raw":
				d, def := pc.rawDist()
				if !def {
					o.Label("raw:undefined")
					continue
				}
				if want := fmtDist("raw", d); got != want {
					return fmt.Errorf("raw distance %s vs %s: gofasta %s, definition %s (=%d/(%d+%d))\nq=%s\nt=%s", q.ID, t.ID, got, want, pc.snp, pc.snp, pc.same, q.Seq, t.Seq)
				}
				if d < 0 || d > 1 {
					return fmt.Errorf("raw distance outside [0,1]: %v", d)
				}
			case "tn93":
				d, def, margin := pc.tn93Dist()
				if !def || margin < 0.02 {
					o.Label("tn93:undefined-or-near-singular")
					continue
				}
				o.LabelIf(pc.P1 > 0 && pc.P2 > 0 && pc.Q > 0, "tn93:P1,P2,Q>0")
				g, perr := strconv.ParseFloat(got, 64)
				if perr != nil || math.IsNaN(g) || math.Abs(g-d) > 5e-9 {
					return fmt.Errorf("tn93 distance %s vs %s: gofasta %s, eq.7 gives %.12f (P1=%d P2=%d Q=%d L=%d; target A,C,G,T=%d,%d,%d,%d)\nq=%s\nt=%s",
						q.ID, t.ID, got, d, pc.P1, pc.P2, pc.Q, pc.L, pc.tA, pc.tC, pc.tG, pc.tT, q.Seq, t.Seq)
				}
			}
			// identical unambiguous sequences: all three are zero
			if strings.EqualFold(q.Seq, t.Seq) && !ambCol {
				o.Label("identical-unambiguous")
				if got != fmtDist(c.Measure, 0) && !(c.Measure == "tn93" && (pc.tA == 0 || pc.tC == 0 || pc.tG == 0 || pc.tT == 0)) {
					return fmt.Errorf("%s distance of identical unambiguous sequences is %s", c.Measure, got)
				}
			}
		}
	}
	if nt {
		o.NonTrivial()
		o.Label("ambiguous+transition+transversion")
	}
	// symmetry of snp and raw: swap the two files
	if c.Measure != "tn93" {
		tab2, err := runClosestTable(c.Targets, c.Queries, c.TLay, c.QLay, c.Measure, c.Threads)
		if err != nil {
			return err
		}
		for _, q := range c.Queries {
			for _, t := range c.Targets {
				if tab[q.ID][t.ID] != tab2[t.ID][q.ID] {
					return fmt.Errorf("%s distance not symmetric: d(%s,%s)=%s but d(%s,%s)=%s", c.Measure, q.ID, t.ID, tab[q.ID][t.ID], t.ID, q.ID, tab2[t.ID][q.ID])
				}
			}
		}
	}
	// plain closest prints the distance and SNPs of the pair it returns
	if len(c.Queries) > 0 {
		var out bytes.Buffer
		qt, tt := renderFasta(c.Queries, c.QLay), renderFasta(c.Targets, c.TLay)
		if err := mustRun("closest.Closest", func() error {
			return closest.Closest(strings.NewReader(qt), strings.NewReader(tt), c.Measure, &out, c.Threads)
		}); err != nil {
			return err
		}
		lines := splitLines(out.String())
		if len(lines) != len(c.Queries)+1 || lines[0] != "query,closest,distance,SNPs" {
			return fmt.Errorf("plain closest: expected header + %d rows, got %q", len(c.Queries), trunc(out.String(), 400))
		}
		tByID := map[string]FaRec{}
		for _, t := range c.Targets {
			tByID[t.ID] = t
		}
		for i, q := range c.Queries {
			f := strings.SplitN(lines[i+1], ",", 4)
			if len(f) != 4 || f[0] != q.ID {
				return fmt.Errorf("plain closest row %d: %q (want query %s)", i, lines[i+1], q.ID)
			}
			t, ok := tByID[f[1]]
			if !ok {
				return fmt.Errorf("plain closest returned unknown target %q", f[1])
			}
			pc := countPair(q.Seq, t.Seq)
			if want := strings.Join(pc.snpsList, ";"); f[3] != want {
				return fmt.Errorf("plain closest SNP column for %s vs %s: %q want %q", q.ID, t.ID, f[3], want)
			}
			if f[2] != tab[q.ID][t.ID] {
				return fmt.Errorf("plain closest distance for %s vs %s is %s but --table says %s", q.ID, t.ID, f[2], tab[q.ID][t.ID])
			}
		}
	}
	return nil
}

// genBalancedTarget builds a target in which each base has at least ~15% share, so that eq. 7's
// logarithm arguments stay well inside their domain for modest divergence (construction, not filtering).
func genBalancedTarget(t *rapid.T, w int) []byte {
	if w > 20000 {
		// long targets: a random balanced unit of prime length repeated (drawing 100k symbols one by one is needlessly slow)
		unit := genBalancedTarget(t, 997)
		b := make([]byte, w)
		for i := range b {
			b[i] = unit[i%997]
		}
		return b
	}
	b := make([]byte, w)
	m := (w*15 + 99) / 100
	for i := range b {
		if i < 4*m {
			b[i] = "ACGT"[i%4]
		} else {
			b[i] = "ACGT"[rapid.IntRange(0, 3).Draw(t, "tbase")]
		}
	}
	// permute deterministically from drawn swaps
	for i := len(b) - 1; i > 0; i-- {
		j := rapid.IntRange(0, i).Draw(t, "perm")
		b[i], b[j] = b[j], b[i]
	}
	return b
}

func transitionOf(b byte) byte {
	switch b {
	case 'A':
		return 'G'
	case 'G':
		return 'A'
	case 'C':
		return 'T'
	}
	return 'C'
}

func transversionOf(t *rapid.T, b byte) byte {
	k := rapid.IntRange(0, 1).Draw(t, "tv")
	switch b {
	case 'A', 'G':
		return "CT"[k]
	}
	return "AG"[k]
}

// mutatePair derives a query from a target: a bounded number of transitions and transversions on
// jointly resolved columns, plus ambiguity codes / gaps in either sequence.
func genDivergedQuery(t *rapid.T, target []byte, maxDiffFrac int) (q, tOut []byte) {
	w := len(target)
	q = append([]byte(nil), target...)
	tOut = append([]byte(nil), target...)
	// ambiguity (kept below ~20% in each so base counts stay balanced)
	namb := rapid.IntRange(0, w/5).Draw(t, "namb")
	ambFrom := 0
	if w > 60000 {
		// very long, almost fully resolved pair: the few ambiguous columns sit near the end, so that the first
		// 65536 columns are all A/C/G/T in both sequences
		namb = rapid.IntRange(0, 3).Draw(t, "nambHuge")
		ambFrom = w - 1000
	}
	for k := 0; k < namb; k++ {
		p := rapid.IntRange(ambFrom, w-1).Draw(t, "ambPos")
		sym := alpha17[4+rapid.IntRange(0, 12).Draw(t, "ambSym")]
		if rapid.IntRange(0, 2).Draw(t, "ambWhere") == 0 {
			tOut[p] = sym
		} else {
			q[p] = sym
		}
	}
	var resolved []int
	for i := 0; i < w; i++ {
		if isACGT(q[i]) && isACGT(tOut[i]) {
			resolved = append(resolved, i)
		}
	}
	if len(resolved) == 0 {
		return
	}
	maxD := len(resolved) * maxDiffFrac / 100
	if maxD < 1 {
		maxD = 1
	}
	nd := rapid.IntRange(0, maxD).Draw(t, "ndiff")
	for k := 0; k < nd; k++ {
		p := resolved[rapid.IntRange(0, len(resolved)-1).Draw(t, "diffPos")]
		if rapid.Bool().Draw(t, "isTransition") {
			q[p] = transitionOf(tOut[p])
		} else {
			q[p] = transversionOf(t, tOut[p])
		}
	}
	return
}

func genC07(t *rapid.T) c07Case {
	maxW := 60
	if thorough() {
		maxW = 200
	}
	c := c07Case{Measure: rapid.SampledFrom([]string{"raw", "snp", "tn93", "tn93"}).Draw(t, "measure")}
	c.Threads = rapid.SampledFrom([]int{0, 1, 2}).Draw(t, "threads")
	w := rapid.IntRange(4, maxW).Draw(t, "width")
	wide := rapid.IntRange(0, 7).Draw(t, "wide") == 0
	if wide {
		w = rapid.SampledFrom([]int{64, 65, 127, 128, 129, 192, 193, 256, 320, 200, 4096, 4097}).Draw(t, "wideWidth")
		if rapid.IntRange(0, 49).Draw(t, "beyond16bit") == 0 {
			w = rapid.SampledFrom([]int{65535, 65536, 65537, 70000, 131073}).Draw(t, "hugeWidth") // counters narrower than int overflow here
		}
	}
	nq := rapid.IntRange(1, 2).Draw(t, "nq")
	nt := rapid.IntRange(1, 4).Draw(t, "nt")
	kind := rapid.IntRange(0, 3).Draw(t, "kind")
	if c.Measure == "tn93" {
		kind = 1 + kind%2
	}
	base := genBalancedTarget(t, w)
	for i := 0; i < nt; i++ {
		var ts []byte
		if kind == 0 {
			ts = []byte(genAlnSeq(t, w, "tsym"))
		} else {
			ts = append([]byte(nil), base...)
			// targets differ from each other a little
			for k := rapid.IntRange(0, 2).Draw(t, "tmut"); k > 0; k-- {
				p := rapid.IntRange(0, w-1).Draw(t, "tmutPos")
				ts[p] = transitionOf(ts[p])
			}
		}
		c.Targets = append(c.Targets, FaRec{ID: fmt.Sprintf("t%d", i), Seq: string(ts)})
	}
	for i := 0; i < nq; i++ {
		var qs []byte
		switch {
		case kind == 0:
			qs = []byte(genAlnSeq(t, w, "qsym"))
		case rapid.IntRange(0, 9).Draw(t, "identical") == 0:
			qs = []byte(c.Targets[0].Seq)
		default:
			var tnew []byte
			qs, tnew = genDivergedQuery(t, []byte(c.Targets[0].Seq), 10)
			if i == 0 {
				c.Targets[0].Seq = string(tnew)
			}
		}
		c.Queries = append(c.Queries, FaRec{ID: fmt.Sprintf("q%d", i), Seq: string(qs)})
	}
	if wide {
		// long masked stretches in the query (>= 64 masked columns in total is common in real data)
		for i := range c.Queries {
			if rapid.Bool().Draw(t, "qMasked") {
				q := []byte(c.Queries[i].Seq)
				for k := rapid.IntRange(1, 3).Draw(t, "nMaskRuns"); k > 0; k-- {
					p := rapid.IntRange(0, w-1).Draw(t, "maskPos")
					n := rapid.IntRange(20, 90).Draw(t, "maskLen")
					sym := rapid.SampledFrom([]byte{'N', '-', '?'}).Draw(t, "maskSym")
					for j := p; j < p+n && j < w; j++ {
						q[j] = sym
					}
				}
				c.Queries[i].Seq = string(q)
			}
		}
	}
	if wide && w >= 128 && rapid.IntRange(0, 2).Draw(t, "sharedMissing") == 0 {
		// a stretch that is missing in every sequence (an amplicon drop-out, alignment padding), covering whole blocks of a grid
		B := rapid.SampledFrom([]int{64, 128, 256, 256, 512}).Draw(t, "sharedGrid")
		if nb := w / B; nb >= 1 {
			a := B * rapid.IntRange(0, nb-1).Draw(t, "sharedFrom")
			b := a + B*rapid.IntRange(1, 2).Draw(t, "sharedBlocks")
			if b > w {
				b = w
			}
			sym := rapid.SampledFrom([]byte{'N', '-', '-', '?'}).Draw(t, "sharedSym")
			mask := func(recs []FaRec) {
				for i := range recs {
					q := []byte(recs[i].Seq)
					for j := a; j < b; j++ {
						q[j] = sym
					}
					recs[i].Seq = string(q)
				}
			}
			mask(c.Queries)
			mask(c.Targets)
		}
	}
	for i := range c.Queries {
		c.Queries[i].Seq = randomCase(t, c.Queries[i].Seq, "qcase")
	}
	for i := range c.Targets {
		c.Targets[i].Seq = randomCase(t, c.Targets[i].Seq, "tcase")
	}
	c.QLay = genLayout(t, w)
	c.TLay = genLayout(t, w)
	if wide {
		c.TLay.Width = rapid.SampledFrom([]int{0, 60, 64, 70, 80, 64}).Draw(t, "wideWrap")
	}
	shareNames(t, c.Queries, c.Targets)
	if c.Measure == "snp" && rapid.IntRange(0, 5).Draw(t, "hugeMaxDist") == 0 {
		c.HugeMaxDist = rapid.SampledFrom([]float64{1e9, 1e19, 1e300}).Draw(t, "hugeMaxDistValue")
	}
	if c.HugeMaxDist == 0 && rapid.IntRange(0, 19).Draw(t, "cli") == 0 && w <= 20000 {
		c.CLIMeasure = rapid.SampledFrom([]string{c.Measure, strings.ToUpper(c.Measure), strings.ToUpper(c.Measure[:1]) + c.Measure[1:]}).Draw(t, "cliMeasure")
	}
	return c
}

func TestC07(t *testing.T) {
	// exhaustive per-column contribution: all 17x17 symbol pairs appended to two fixed contexts
	ctxs := [][2]string{
		{"ACGTACGTACGT", "ACGTACGTACGT"},     // identical resolved context
		{"ACGTACGTACGTAA", "GCGTATGTACCTAA"}, // one A/G, one C/T, one transversion already present
	}
	n := runEnumerated(t, "C07", func(yield func(c07Case) bool) {
		for _, m := range []string{"snp", "raw", "tn93"} {
			for _, ctx := range ctxs {
				for i := 0; i < 17; i++ {
					for j := 0; j < 17; j++ {
						c := c07Case{Measure: m, QLay: plainLayout(), TLay: plainLayout(), Threads: 1,
							Queries: []FaRec{{ID: "q", Seq: ctx[0] + string(alpha17[i])}},
							Targets: []FaRec{{ID: "t", Seq: ctx[1] + string(alpha17[j])}}}
						if !yield(c) {
							return
						}
					}
				}
			}
		}
	}, checkC07)
	stats.Extra["exhaustive_cases"] = n
	stats.Extra["exhaustive"] = true
	if t.Failed() {
		return
	}
	runProp(t, "C07", genC07, checkC07)
}
