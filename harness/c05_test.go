package harness

// C05 — indels are reported in reference coordinates whatever the alignment's columns.

import (
	"fmt"
	"strings"
	"testing"

	"pgregory.net/rapid"
)

func checkC05(c varCase, o *Obs) error {
	labelVarCase(c, o)
	names, views, err := c.queryViews()
	if err != nil {
		return err
	}
	nt := false
	for _, n := range names {
		v := views[n]
		// reference-gap runs (alignment level) and whether an indel comes after an earlier gap column
		R := ""
		if c.Form == "msa" {
			R = c.Msa.refRow(c.Anno)
		} else {
			q := projectQuery(c.Sam.recordsOf(n), len(c.Sam.Ref))
			R, _ = q.fullPairRows(c.Sam.Ref, false)
		}
		runs := 0
		for i := 0; i < len(R); i++ {
			if R[i] == '-' && (i == 0 || R[i-1] != '-') {
				runs++
			}
		}
		ind := v.expectedIndels()
		if runs >= 2 && len(ind) > 0 {
			nt = true
		}
		firstGap := strings.IndexByte(R, '-')
		if firstGap >= 0 && len(ind) > 0 {
			// an indel whose alignment column lies right of the first gap column
			refSeen := 0
			for i := 0; i < firstGap; i++ {
				if R[i] != '-' {
					refSeen++
				}
			}
			for _, s := range ind {
				m, _ := parseMut(s)
				if m.Pos > refSeen {
					nt = true
					o.Label("indel-after-earlier-gap-column")
				}
			}
		}
		o.LabelIf(v.ins[v.L] > 0, "insertion-abutting-end")
		o.LabelIf(v.ins[0] > 0, "insertion-abutting-start")
		o.LabelIf(v.L > 0 && v.qry[0] == '-', "deletion-abutting-start")
		o.LabelIf(v.L > 0 && v.qry[v.L-1] == '-', "deletion-abutting-end")
		for p := 1; p < v.L; p++ {
			if v.ins[p] > 0 && v.qry[p-1] == '-' && v.qry[p] == '-' {
				o.Label("deletion-spanning-insertion-slot")
			}
		}
	}
	if nt {
		o.NonTrivial()
	}
	if err := checkVariantsAgainstModel(c, o); err != nil {
		return err
	}
	// metamorphic: the mutation list of a query depends only on its own pairwise relation to the
	// reference — re-run each query alone with every both-gap column removed.
	if c.Form == "msa" && c.Msa.RefAt >= 0 {
		out, err := runVariants(c, defaultVarRun(true))
		if err != nil {
			return err
		}
		_, rows, err := parseVariantsOutput(out)
		if err != nil {
			return err
		}
		R := c.Msa.refRow(c.Anno)
		for _, q := range c.Msa.queries() {
			var rb, qb strings.Builder
			for i := 0; i < len(R); i++ {
				if R[i] == '-' && q.Seq[i] == '-' {
					continue
				}
				rb.WriteByte(R[i])
				qb.WriteByte(q.Seq[i])
			}
			c2 := c
			m2 := MsaCase{RefID: c.Msa.RefID, RefAt: 0, Layout: plainLayout(),
				Rows: []FaRec{{ID: c.Msa.RefID, Seq: rb.String()}, {ID: q.ID, Seq: qb.String()}}}
			c2.Msa = &m2
			out2, err := runVariants(c2, defaultVarRun(true))
			if err != nil {
				return err
			}
			_, rows2, err := parseVariantsOutput(out2)
			if err != nil {
				return err
			}
			if sortedJoin(rows2[q.ID]) != sortedJoin(rows[q.ID]) {
				return fmt.Errorf("query %s: mutation list changes when the columns that are gaps in both reference and query are removed:\n in the MSA: %v\n pair only:  %v\n%s", q.ID, rows[q.ID], rows2[q.ID], c.describe())
			}
		}
	}
	return nil
}

func genC05(t *rapid.T) varCase { return genVarCase(t, "indel") }

func TestC05(t *testing.T) { runProp(t, "C05", genC05, checkC05) }
