package harness

// C02 — sam toPairAlign reconstructs each pairwise alignment losslessly.

import (
	"bytes"
	"fmt"
	"os"
	"path/filepath"
	"sort"
	"strconv"
	"strings"
	"sync"
	"testing"

	"github.com/virus-evolution/gofasta/pkg/sam"
	"pgregory.net/rapid"
)

type c02Case struct {
	In       SamInput `json:"sam"`
	SkipIns  bool     `json:"skip_insertions"`
	OmitRef  bool     `json:"omit_reference"`
	Start    int      `json:"start"`
	End      int      `json:"end"`
	Wrap     int      `json:"wrap"`
	Threads  int      `json:"threads"`
	Stdout   bool     `json:"stdout"` // -o stdout instead of a directory
	RefLower bool     `json:"ref_lower"`
	RefWidth int      `json:"ref_line_width"` // 0: the reference sequence on one line; else wrapped at this width
	CLI      bool     `json:"cli,omitempty"`
}

var stdoutMu sync.Mutex

// captureStdout runs f with os.Stdout redirected to a scratch file and returns what was written.
func captureStdout(f func() error) (string, error) {
	stdoutMu.Lock()
	defer stdoutMu.Unlock()
	tmp, err := os.CreateTemp(scratchDir(), "stdout-*")
	if err != nil {
		return "", err
	}
	defer os.Remove(tmp.Name())
	old := os.Stdout
	os.Stdout = tmp
	ferr := f()
	os.Stdout = old
	tmp.Close()
	b, _ := os.ReadFile(tmp.Name())
	return string(b), ferr
}

func pairFileName(q string) string { return strings.ReplaceAll(q, "/", "_") + ".fasta" }

// c02ExpectedFor returns the expected file content for one query.
func c02ExpectedFor(c c02Case, name string) string {
	L := len(c.In.Ref)
	q := projectQuery(c.In.recordsOf(name), L)
	var rr, qr string
	if c.Start < 0 && c.End < 0 {
		rr, qr = q.fullPairRows(c.In.Ref, c.SkipIns)
	} else {
		s, e := c.Start, c.End
		if s < 0 {
			s = 1
		}
		if e < 0 {
			e = L
		}
		rr, qr = q.pairRows(c.In.Ref, s, e, c.SkipIns)
	}
	var sb strings.Builder
	if !c.OmitRef {
		sb.WriteString(">" + c.In.RefName + "\n" + wrapText(rr, c.Wrap))
	}
	sb.WriteString(">" + name + "\n" + wrapText(qr, c.Wrap))
	return sb.String()
}

// refText renders the --reference file: one record, optionally lower case, on one line or wrapped.
func (c c02Case) refText() string {
	ref := c.In.Ref
	if c.RefLower {
		ref = strings.ToLower(ref)
	}
	if c.RefWidth > 0 {
		ref = strings.TrimSuffix(wrapText(ref, c.RefWidth), "\n")
	}
	return ">" + c.In.RefName + " some description\n" + ref + "\n"
}

func runToPairAlign(c c02Case) (files map[string]string, stdout string, err error) {
	samTxt := c.In.render()
	refTxt := c.refText()
	if c.Stdout {
		stdout, err = captureStdout(func() error {
			return mustRun("sam.ToPairAlign(stdout)", func() error {
				return sam.ToPairAlign(strings.NewReader(samTxt), strings.NewReader(refTxt), "stdout", c.Wrap, c.Start, c.End, c.OmitRef, c.SkipIns, c.Threads)
			})
		})
		return nil, stdout, err
	}
	dir, derr := os.MkdirTemp(scratchDir(), "topa-*")
	if derr != nil {
		return nil, "", derr
	}
	defer os.RemoveAll(dir)
	outdir := filepath.Join(dir, "out")
	if err = mustRun("sam.ToPairAlign(dir)", func() error {
		return sam.ToPairAlign(strings.NewReader(samTxt), strings.NewReader(refTxt), outdir, c.Wrap, c.Start, c.End, c.OmitRef, c.SkipIns, c.Threads)
	}); err != nil {
		return nil, "", err
	}
	files = map[string]string{}
	ents, _ := os.ReadDir(outdir)
	for _, e := range ents {
		b, _ := os.ReadFile(filepath.Join(outdir, e.Name()))
		files[e.Name()] = string(b)
	}
	return files, "", nil
}

func checkC02(c c02Case, o *Obs) error {
	labelSam(c.In, o)
	o.LabelIf(c.SkipIns, "skip-insertions")
	o.LabelIf(c.OmitRef, "omit-reference")
	o.LabelIf(c.Start > 0 || c.End > 0, "window")
	o.LabelIf(c.Wrap > 0, "wrap")
	o.LabelIf(c.Threads > 1, "threads>1")
	o.LabelIf(c.Stdout, "stdout")
	o.LabelIf(c.RefWidth > 0, "reference-file-wrapped")
	o.LabelIf(len(c.In.Ref) >= 32768, "reference>=32768")
	o.LabelIf(len(c.In.Ref) >= 65536, "reference>=65536")
	L := len(c.In.Ref)
	names := c.In.queryNames()
	nt, deep := false, false
	known := false
	for _, n := range names {
		rs := c.In.recordsOf(n)
		q := projectQuery(rs, L)
		if q.conflict || q.insClash {
			return fmt.Errorf("generator produced a conflicting query (harness bug)")
		}
		if len(q.ins) > 0 {
			nt = true
			o.Label("query-with-insertion")
			if len(rs) > 1 {
				deep = true
				o.Label("multi-record+insertion")
				if isOpenFinding("C02:multi-record-insertion") {
					known = true
				}
			}
			o.LabelIf(len(q.ins) > 1, "several-insertions")
			_, a := q.ins[0]
			_, b := q.ins[L]
			o.LabelIf(a, "insertion-before-first-base")
			o.LabelIf(b, "insertion-after-last-base")
		}
	}
	_ = deep
	if nt {
		o.NonTrivial()
	}
	if known && !c.SkipIns {
		// excluded by construction while the finding is open; the dedicated probe reports it
		o.Known("C02:multi-record-insertion")
		return nil
	}
	files, stdout, err := runToPairAlign(c)
	if err != nil {
		return err
	}
	if c.Stdout {
		var want strings.Builder
		for _, n := range names {
			want.WriteString(c02ExpectedFor(c, n))
		}
		if c.Threads == 1 {
			if stdout != want.String() {
				return fmt.Errorf("toPairAlign -o stdout differs from the model\n got: %q\nwant: %q\n%s\nSAM:\n%s", trunc(stdout, 700), trunc(want.String(), 700), firstDiff(stdout, want.String()), trunc(c.In.render(), 1500))
			}
		} else {
			// record order under threads>1 is C12's business; here: the same set of per-query blocks
			if d := sameBlocks(stdout, want.String(), names, c); d != "" {
				return fmt.Errorf("toPairAlign -o stdout (threads %d): %s\n got: %q\nSAM:\n%s", c.Threads, d, trunc(stdout, 700), trunc(c.In.render(), 1500))
			}
		}
	} else {
		var gotNames []string
		for f := range files {
			gotNames = append(gotNames, f)
		}
		sort.Strings(gotNames)
		var wantNames []string
		for _, n := range names {
			wantNames = append(wantNames, pairFileName(n))
		}
		sort.Strings(wantNames)
		if strings.Join(gotNames, ",") != strings.Join(wantNames, ",") {
			return fmt.Errorf("toPairAlign wrote files %v, expected one per query: %v", gotNames, wantNames)
		}
		for _, n := range names {
			want := c02ExpectedFor(c, n)
			got := files[pairFileName(n)]
			if got != want {
				return fmt.Errorf("toPairAlign file for %s differs from the model (skipIns=%v omitRef=%v start=%d end=%d wrap=%d threads=%d)\n got: %q\nwant: %q\n%s\nSAM:\n%s",
					n, c.SkipIns, c.OmitRef, c.Start, c.End, c.Wrap, c.Threads, trunc(got, 700), trunc(want, 700), firstDiff(got, want), trunc(c.In.render(), 1500))
			}
		}
	}
	if c.CLI && gofastaBin() != "" {
		dir, cleanup := caseDir("c02cli")
		defer cleanup()
		args := []string{"sam", "toPairAlign", "-s", writeFile(dir, "in.sam", c.In.render()), "-r", writeFile(dir, "ref.fa", c.refText()), "-t", "1", "-o", "stdout"}
		if c.SkipIns {
			args = append(args, "--skip-insertions")
		}
		if c.OmitRef {
			args = append(args, "--omit-reference")
		}
		if c.Start > 0 {
			args = append(args, "--start", strconv.Itoa(c.Start))
		}
		if c.End > 0 {
			args = append(args, "--end", strconv.Itoa(c.End))
		}
		if c.Wrap > 0 {
			args = append(args, "-w", strconv.Itoa(c.Wrap))
		}
		var want strings.Builder
		for _, n := range names {
			want.WriteString(c02ExpectedFor(c, n))
		}
		if err := cliAgree(o, "sam toPairAlign", want.String(), args...); err != nil {
			return err
		}
	}
	// cross-command relation: deleting the reference-gap columns from the query row gives the
	// `sam toMultiAlign --pad` row of the same query (checked on gofasta's own two outputs)
	if !c.Stdout && !c.OmitRef && c.Wrap <= 0 {
		var ma bytes.Buffer
		samTxt := c.In.render()
		if err := mustRun("sam.ToMultiAlign(pad)", func() error {
			return sam.ToMultiAlign(strings.NewReader(samTxt), &ma, -1, c.Start, c.End, true, 1)
		}); err != nil {
			return err
		}
		maRows := map[string]string{}
		ls := splitLines(ma.String())
		for i := 0; i+1 < len(ls); i += 2 {
			maRows[strings.TrimPrefix(ls[i], ">")] = ls[i+1]
		}
		for _, n := range names {
			fl := splitLines(files[pairFileName(n)])
			if len(fl) != 4 {
				return fmt.Errorf("pair file of %s has %d lines", n, len(fl))
			}
			refRow, qRow := fl[1], fl[3]
			if len(refRow) != len(qRow) {
				return fmt.Errorf("pair of %s: reference row %d columns, query row %d", n, len(refRow), len(qRow))
			}
			var sb strings.Builder
			for i := range refRow {
				if refRow[i] != '-' {
					sb.WriteByte(qRow[i])
				}
			}
			wantMA := maRows[n]
			if c.Start > 0 || c.End > 0 {
				// toMultiAlign --pad with a window keeps full length and N-fills outside: cut the window out
				s, e := c.Start, c.End
				if s < 0 {
					s = 1
				}
				if e < 0 {
					e = L
				}
				wantMA = wantMA[s-1 : e]
			}
			if sb.String() != wantMA {
				return fmt.Errorf("query %s: pair row without reference-gap columns %q != toMultiAlign --pad row %q", n, sb.String(), wantMA)
			}
		}
	}
	return nil
}

// sameBlocks compares stdout output as a multiset of per-query blocks.
func sameBlocks(got, want string, names []string, c c02Case) string {
	wantBlocks := map[string]int{}
	for _, n := range names {
		wantBlocks[c02ExpectedFor(c, n)]++
	}
	rest := got
	for len(rest) > 0 {
		found := false
		for b, k := range wantBlocks {
			if k > 0 && strings.HasPrefix(rest, b) {
				wantBlocks[b]--
				rest = rest[len(b):]
				found = true
				break
			}
		}
		if !found {
			return "output is not a permutation of the expected per-query blocks at: " + trunc(rest, 200)
		}
	}
	for b, k := range wantBlocks {
		if k != 0 {
			return "missing block: " + trunc(b, 200)
		}
	}
	return ""
}

func genC02(t *rapid.T) c02Case {
	if oneIn(t, "veryLongRef", 150) {
		// a genome-sized reference on a single line (or wrapped): lines beyond 32 KiB / 64 KiB in the --reference reader,
		// rows beyond 64 KiB in the writers
		n := rapid.SampledFrom([]int{32767, 32768, 33000, 40000, 65535, 65536, 66000}).Draw(t, "veryLongLen") // not longer: gofasta decodes the reference in quadratic time
		unit := genACGT(t, 997, "veryLongUnit")
		ref := strings.Repeat(unit, n/997+1)[:n]
		c := c02Case{In: genSamInput(t, samGenOpts{maxQueries: 2, maxRecs: 1 + rapid.IntRange(0, 1).Draw(t, "veryLongRecs"), fixedRef: ref, fixedRefName: "longref"})}
		c.Start, c.End = -1, -1
		c.Wrap = rapid.SampledFrom([]int{-1, -1, 60, 65536, n}).Draw(t, "bigWrap")
		c.RefWidth = rapid.SampledFrom([]int{0, 0, 0, 60, 32768}).Draw(t, "refWidth")
		c.Threads = rapid.SampledFrom([]int{1, 2}).Draw(t, "threads")
		c.SkipIns = rapid.IntRange(0, 4).Draw(t, "skipIns") == 0
		c.CLI = rapid.IntRange(0, 3).Draw(t, "cli") == 0
		return c
	}
	c := c02Case{In: genSamInput(t, samGenOpts{maxRef: ifThorough(300, 60), maxQueries: 4, maxRecs: ifThorough(4, 3), allowNoise: true, iupacRef: true, slashNames: true, hugeEvery: 80})}
	L := len(c.In.Ref)
	c.SkipIns = rapid.IntRange(0, 4).Draw(t, "skipIns") == 0
	c.OmitRef = rapid.IntRange(0, 4).Draw(t, "omitRef") == 0
	c.Start, c.End = genWindow(t, L)
	c.Wrap = genWrap(t, L)
	c.Threads = rapid.SampledFrom([]int{1, 1, 2, 3, 8}).Draw(t, "threads")
	c.Stdout = rapid.IntRange(0, 5).Draw(t, "stdout") == 0
	c.RefLower = rapid.IntRange(0, 5).Draw(t, "refLower") == 0
	c.CLI = rapid.IntRange(0, 19).Draw(t, "cli") == 0
	if rapid.IntRange(0, 3).Draw(t, "refWrapped") == 0 {
		c.RefWidth = rapid.IntRange(1, L+2).Draw(t, "refWidth")
	}
	return c
}

func ifThorough(a, b int) int {
	if thorough() {
		return a
	}
	return b
}

func TestC02(t *testing.T) { runProp(t, "C02", genC02, checkC02) }
