package harness

// C09 — updown topranking gives identical results for CSV and FASTA inputs.

import (
	"bytes"
	"fmt"
	"strings"
	"testing"

	"github.com/virus-evolution/gofasta/pkg/updown"
	"pgregory.net/rapid"
)

func udListCSV(ref string, recs []FaRec) (string, error) {
	var out bytes.Buffer
	refTxt, aln := ">ref\n"+ref+"\n", fa(recs...)
	err := mustRun("updown.List", func() error {
		return updown.List(strings.NewReader(refTxt), strings.NewReader(aln), &out)
	})
	return out.String(), err
}

func checkC09(c c08Case, o *Obs) error {
	qFa, tFa := fa(c.Queries...), fa(c.Targets...)
	qCSV, err := udListCSV(c.Ref, c.Queries)
	if err != nil {
		return err
	}
	tCSV, err := udListCSV(c.Ref, c.Targets)
	if err != nil {
		return err
	}
	type combo struct{ q, t string }
	outs := map[combo]string{}
	for _, cb := range []combo{{"fasta", "fasta"}, {"csv", "fasta"}, {"fasta", "csv"}, {"csv", "csv"}} {
		qt, tt := qFa, tFa
		if cb.q == "csv" {
			qt = qCSV
		}
		if cb.t == "csv" {
			tt = tCSV
		}
		if c.SlowIdx > 0 && cb.t == "fasta" {
			slowRecord(c.SlowIdx-1, 4000) // one target's worker finishes late: hundreds of later targets overtake it
		}
		out, err := runTopRanking(c, cb.q, cb.t, qt, tt)
		slowRecord(-1, 0)
		if err != nil {
			return fmt.Errorf("query=%s target=%s: %v", cb.q, cb.t, err)
		}
		outs[cb] = out
	}
	base := outs[combo{"fasta", "fasta"}]
	for cb, out := range outs {
		if out != base {
			return fmt.Errorf("topranking output differs between input types: query=%s target=%s gives\n%s\nbut fasta/fasta gives\n%s\n(options %+v, %d queries, %d targets)\nref %s\nqueries:\n%stargets:\n%s",
				cb.q, cb.t, trunc(out, 800), trunc(base, 800), c.Opts, len(c.Queries), len(c.Targets), c.Ref, trunc(qFa, 500), trunc(tFa, 800))
		}
	}
	// one output row per query in query-file order (list form), validated on the csv/csv output too
	rows, err := parseTopRanking(outs[combo{"csv", "csv"}], c.Opts.Table, c.Queries)
	if err != nil {
		return fmt.Errorf("csv/csv output: %v", err)
	}
	nonEmpty := false
	for _, r := range rows {
		for b := 0; b < 4; b++ {
			if len(r.bins[b]) > 0 {
				nonEmpty = true
			}
		}
	}
	o.LabelIf(len(c.Queries) >= 2, "queries>=2")
	o.LabelIf(len(c.Targets) > 256, "targets>256")
	o.LabelIf(strings.Trim(c.Ref, "ACGT") != "", "iupac-reference")
	o.LabelIf(len(c.Ref) > 64, "wide-alignment")
	for _, l := range strings.Split(tCSV+qCSV, "\n") {
		o.LabelIf(len(l) > 65536, "csv-row>64KiB")
	}
	o.LabelIf(c.Opts.Table, "table")
	o.LabelIf(c.Opts.DistPush > 0, "dist-push")
	if len(c.Queries) >= 2 && nonEmpty {
		o.NonTrivial()
	}
	return nil
}

func genC09(t *rapid.T) c08Case {
	c := c08Case{}
	minQ := 2
	if rapid.IntRange(0, 9).Draw(t, "singleQuery") < 2 {
		minQ = 1
	}
	hugeRows = true
	c.Ref, c.Queries, c.Targets = genUDInput(t, minQ, true)
	hugeRows = false
	c.Opts = genUDOpts(t, c.Targets, len(c.Ref))
	if len(c.Ref) < 1000 && rapid.IntRange(0, 11).Draw(t, "manyTargets") == 0 {
		// hundreds of targets, mostly copies (ties on distance and ambiguity count are decided by file order, which
		// the fasta path has to restore after its parallel workers)
		base := len(c.Targets)
		for k := 0; len(c.Targets) < rapid.SampledFrom([]int{270, 400, 600}).Draw(t, "manyTargetsN"); k++ {
			c.Targets = append(c.Targets, FaRec{ID: fmt.Sprintf("rep%d", k), Seq: c.Targets[k%base].Seq})
		}
		c.SlowIdx = 1 + rapid.IntRange(0, 40).Draw(t, "slowIdx")
	}
	return c
}

func TestC09(t *testing.T) { runProp(t, "C09", genC09, checkC09) }
