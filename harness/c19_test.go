package harness

// C19 — a failed output write is never reported as success.
// For every entry point and generated input, the k-th Write on the output fails for EVERY k from 1 to the
// number of writes of the fault-free run (enumerated), once (fail-once) and from k on (sticky).

import (
	"bytes"
	"errors"
	"fmt"
	"io"
	"os"
	"path/filepath"
	"strconv"
	"strings"
	"sync"
	"testing"
	"time"

	"github.com/virus-evolution/gofasta/pkg/closest"
	"github.com/virus-evolution/gofasta/pkg/sam"
	"github.com/virus-evolution/gofasta/pkg/snps"
	"github.com/virus-evolution/gofasta/pkg/updown"
	"github.com/virus-evolution/gofasta/pkg/variants"
	"pgregory.net/rapid"
)

type faultWriter struct {
	mu     sync.Mutex
	n      int
	failAt int // 0 = never
	sticky bool
	failed bool
	buf    bytes.Buffer
}

var errInjected = errors.New("injected write failure (device full)")

func (w *faultWriter) Write(p []byte) (int, error) {
	w.mu.Lock()
	defer w.mu.Unlock()
	w.n++
	if w.failAt > 0 && (w.n == w.failAt || (w.sticky && w.n > w.failAt)) {
		w.failed = true
		return 0, errInjected
	}
	w.buf.Write(p)
	return len(p), nil
}

type c19Case struct {
	Entry string    `json:"entry"`
	Snps  *c03Case  `json:"snps,omitempty"`
	Var   *varCase  `json:"var,omitempty"`
	Sam   *SamInput `json:"sam,omitempty"`
	Clo   *c06Case  `json:"closest,omitempty"`
	UD    *c08Case  `json:"updown,omitempty"`
	Flag  bool      `json:"flag"` // aggregate / table / wrap, depending on the entry
	Proc  string    `json:"proc,omitempty"`
	Large int       `json:"large,omitempty"` // > 0: records replicated this many times (output beyond 64 KiB: buffered writers must flush mid-run)
	Picks []int     `json:"picks,omitempty"` // per-mille positions of extra fault points when the run has too many writes to enumerate
}

var c19Entries = []string{"snps", "snps-aggregate", "variants", "variants-aggregate", "sam-variants", "sam-variants-aggregate",
	"toMultiAlign", "toMultiAlign-wrap", "closest", "closestN", "closestN-table", "updown-list", "topranking", "topranking-table"}

// c19Runner returns the function that runs the entry point of the case against a writer.
func c19Runner(c c19Case) (func(w io.Writer) error, error) {
	switch c.Entry {
	case "snps", "snps-aggregate":
		s := c.Snps
		refTxt, aln := renderFasta([]FaRec{s.Ref}, s.RefLay), renderFasta(s.Recs, s.AlnLay)
		agg := c.Entry == "snps-aggregate"
		return func(w io.Writer) error {
			return snps.SNPs(strings.NewReader(refTxt), strings.NewReader(aln), s.HardGaps, agg, 0, w)
		}, nil
	case "variants", "variants-aggregate", "sam-variants", "sam-variants-aggregate":
		vc := *c.Var
		anno := vc.annoText()
		agg := strings.HasSuffix(c.Entry, "aggregate")
		if vc.Form == "msa" {
			msa := vc.Msa.render()
			return func(w io.Writer) error {
				return variants.Variants(bytes.NewReader([]byte(msa)), false, vc.Msa.RefID, strings.NewReader(anno), vc.Format, w, -1, -1, agg, 0, true, vc.Threads)
			}, nil
		}
		st, rt := vc.Sam.render(), vc.Sam.refFasta()
		return func(w io.Writer) error {
			return sam.Variants(strings.NewReader(st), strings.NewReader(rt), vc.RefFromFile, strings.NewReader(anno), vc.Format, w, -1, -1, agg, 0, true, vc.Threads)
		}, nil
	case "toMultiAlign", "toMultiAlign-wrap":
		st := c.Sam.render()
		wrap := -1
		if c.Entry == "toMultiAlign-wrap" {
			wrap = 3
		}
		return func(w io.Writer) error { return sam.ToMultiAlign(strings.NewReader(st), w, wrap, -1, -1, false, 2) }, nil
	case "closest", "closestN", "closestN-table":
		cl := c.Clo
		qt, tt := fa(cl.Queries...), fa(cl.Targets...)
		switch c.Entry {
		case "closest":
			return func(w io.Writer) error {
				return closest.Closest(strings.NewReader(qt), strings.NewReader(tt), cl.Measure, w, 2)
			}, nil
		case "closestN":
			return func(w io.Writer) error {
				return closest.ClosestN(len(cl.Targets), -1, strings.NewReader(qt), strings.NewReader(tt), cl.Measure, w, false, 2)
			}, nil
		default:
			return func(w io.Writer) error {
				return closest.ClosestN(len(cl.Targets), -1, strings.NewReader(qt), strings.NewReader(tt), cl.Measure, w, true, 2)
			}, nil
		}
	case "updown-list":
		u := c.UD
		rt, aln := ">ref\n"+u.Ref+"\n", fa(u.Targets...)
		return func(w io.Writer) error { return updown.List(strings.NewReader(rt), strings.NewReader(aln), w) }, nil
	case "topranking", "topranking-table":
		u := *c.UD
		u.Opts = udOpts{DistAll: 30, ThreshP: 1, ThreshT: 10000, Table: c.Entry == "topranking-table"}
		qt, tt, rt := fa(u.Queries...), fa(u.Targets...), ">ref\n"+u.Ref+"\n"
		o := u.Opts
		return func(w io.Writer) error {
			return updown.TopRanking(strings.NewReader(qt), strings.NewReader(tt), strings.NewReader(rt), w, o.Table, "fasta", "fasta", nil,
				0, 0, 0, 0, 0, o.DistAll, 0, 0, 0, o.ThreshP, o.ThreshT, false, 0)
		}, nil
	}
	return nil, fmt.Errorf("unknown entry %q", c.Entry)
}

const c19Deadline = 10 * time.Second

func checkC19(c c19Case, o *Obs) error {
	if c.Proc != "" {
		return checkC19Proc(c, o)
	}
	o.Label("entry:" + c.Entry)
	run, err := c19Runner(c)
	if err != nil {
		return err
	}
	// fault-free run: must succeed, and tells how many writes there are
	w0 := &faultWriter{}
	rerr, to, pv := callTimeout(c19Deadline, func() error { return run(w0) })
	if to || pv != nil || rerr != nil {
		return fmt.Errorf("%s: fault-free run failed on valid input: err=%v timeout=%v panic=%v", c.Entry, rerr, to, pv)
	}
	n := w0.n
	if n == 0 {
		return fmt.Errorf("%s: fault-free run performed no writes", c.Entry)
	}
	o.LabelIf(c.Large > 0, "large-output")
	o.LabelIf(w0.buf.Len() > 65536, "output>64KiB")
	// sanity: a second fault-free run gives the same bytes for single-threaded-order entries (not asserted: C12)
	stats.count("fault_free_runs", 1)
	stats.count("writes_total", n)
	o.LabelIf(n >= 3, "writes>=3")
	if n >= 2 {
		o.NonTrivial()
	}
	ks := make([]int, 0, n)
	if n <= 60 {
		for k := 1; k <= n; k++ {
			ks = append(ks, k) // every fault point
		}
	} else {
		// too many writes to enumerate: the first and last ones, quartiles, and drawn positions
		seen := map[int]bool{}
		add := func(k int) {
			if k >= 1 && k <= n && !seen[k] {
				seen[k] = true
				ks = append(ks, k)
			}
		}
		for k := 1; k <= 6; k++ {
			add(k)
			add(n - k + 1)
		}
		add(n / 4)
		add(n / 2)
		add(3 * n / 4)
		for _, pm := range c.Picks {
			add(1 + pm*(n-1)/1000)
		}
		stats.count("runs_with_sampled_fault_points", 1)
	}
	for _, k := range ks {
		for _, sticky := range []bool{false, true} {
			fw := &faultWriter{failAt: k, sticky: sticky}
			rerr, to, pv := callTimeout(c19Deadline, func() error { return run(fw) })
			stats.count("fault_executions", 1)
			if k >= 2 {
				stats.count("fault_executions_not_header", 1)
			}
			mode := "fail-once"
			if sticky {
				mode = "fail-from-k-on"
			}
			if to {
				return fmt.Errorf("%s: write #%d of %d fails (%s): the call did not return within %v", c.Entry, k, n, mode, c19Deadline)
			}
			if pv != nil {
				return fmt.Errorf("%s: write #%d of %d fails (%s): panic %v", c.Entry, k, n, mode, pv)
			}
			if !fw.failed {
				// the run performed fewer writes this time (cannot happen for a deterministic writer count)
				return fmt.Errorf("%s: run performed only %d writes, fault-free run %d", c.Entry, fw.n, n)
			}
			if rerr == nil {
				return fmt.Errorf("%s: write #%d of %d failed (%s) but the call returned nil — a failed output write is reported as success\noutput accepted so far: %q", c.Entry, k, n, mode, trunc(fw.buf.String(), 300))
			}
		}
	}
	return nil
}

// process level: the binary with its output on /dev/full must exit non-zero.
func checkC19Proc(c c19Case, o *Obs) error {
	if gofastaBin() == "" {
		return nil
	}
	o.Label("proc:" + c.Proc)
	dir, cleanup := caseDir("c19")
	defer cleanup()
	full, err := os.OpenFile("/dev/full", os.O_WRONLY, 0)
	if err != nil {
		return nil // no /dev/full on this system: nothing to inject
	}
	defer full.Close()
	var args []string
	stdoutFull := false
	switch c.Proc {
	case "snps":
		s := c.Snps
		args = []string{"snps", "-r", writeFile(dir, "r.fa", renderFasta([]FaRec{s.Ref}, s.RefLay)), "-q", writeFile(dir, "q.fa", renderFasta(s.Recs, s.AlnLay))}
	case "variants":
		vc := *c.Var
		ext := "." + vc.Format
		args = []string{"variants", "--msa", writeFile(dir, "a.fa", vc.Msa.render()), "-a", writeFile(dir, "anno"+ext, vc.annoText()), "--reference", vc.Msa.RefID}
	case "toMultiAlign":
		args = []string{"sam", "toMultiAlign", "-s", writeFile(dir, "in.sam", c.Sam.render())}
	case "toPairAlign-stdout":
		args = []string{"sam", "toPairAlign", "-s", writeFile(dir, "in.sam", c.Sam.render()), "-r", writeFile(dir, "ref.fa", c.Sam.refFasta()), "-o", "stdout"}
		stdoutFull = true
	case "toPairAlign-symlink":
		out := filepath.Join(dir, "pairs")
		os.MkdirAll(out, 0o755)
		names := c.Sam.queryNames()
		// one query's output file is a symlink to /dev/full
		victim := names[len(names)/2]
		os.Symlink("/dev/full", filepath.Join(out, pairFileName(victim)))
		args = []string{"sam", "toPairAlign", "-s", writeFile(dir, "in.sam", c.Sam.render()), "-r", writeFile(dir, "ref.fa", c.Sam.refFasta()), "-o", out}
		r := runBin(30*time.Second, "", nil, args...)
		stats.count("fault_executions", 1)
		if r.TimedOut {
			return fmt.Errorf("toPairAlign with %s.fasta -> /dev/full: did not terminate", victim)
		}
		if r.Exit == 0 {
			return fmt.Errorf("toPairAlign: writing %s.fasta failed (ENOSPC) but the command exited 0", victim)
		}
		o.NonTrivial()
		return nil
	case "closest":
		cl := c.Clo
		args = []string{"closest", "--query", writeFile(dir, "q.fa", fa(cl.Queries...)), "--target", writeFile(dir, "t.fa", fa(cl.Targets...)), "-m", cl.Measure}
		if c.Flag {
			args = append(args, "-n", strconv.Itoa(len(cl.Targets)), "--table")
		}
	case "updown-list":
		u := c.UD
		args = []string{"updown", "list", "-r", writeFile(dir, "r.fa", ">ref\n"+u.Ref+"\n"), "-q", writeFile(dir, "q.fa", fa(u.Targets...))}
	case "topranking":
		u := c.UD
		args = []string{"updown", "topranking", "-r", writeFile(dir, "r.fa", ">ref\n"+u.Ref+"\n"), "-q", writeFile(dir, "q.fa", fa(u.Queries...)), "-t", writeFile(dir, "t.fa", fa(u.Targets...)), "--dist-all", "30"}
		if c.Flag {
			args = append(args, "--table")
		}
	default:
		return fmt.Errorf("unknown proc kind %q", c.Proc)
	}
	baseArgs := append([]string{}, args...)
	var r procResult
	if stdoutFull || c.Flag && c.Proc == "snps" {
		r = runBin(30*time.Second, "", full, args...) // stdout is /dev/full
	} else {
		if c.Proc != "toPairAlign-stdout" {
			args = append(args, "-o", "/dev/full")
		}
		r = runBin(30*time.Second, "", nil, args...)
	}
	stats.count("fault_executions", 1)
	if r.TimedOut {
		return fmt.Errorf("gofasta %v with output on /dev/full did not terminate", args)
	}
	if r.Exit == 0 {
		return fmt.Errorf("gofasta %v: every write to the output fails with ENOSPC (/dev/full) but the exit status is 0\nstderr: %s", args, trunc(r.Stderr, 300))
	}
	// the other everyday way a write fails: stdout is a pipe whose reader has gone (`gofasta ... | head`, a consumer that died).
	// Every write fails with EPIPE (or the process is killed by SIGPIPE): anything but exit status 0 is fine.
	if pr, pw, err := os.Pipe(); err == nil {
		pr.Close()
		rp := runBin(30*time.Second, "", pw, baseArgs...)
		pw.Close()
		stats.count("fault_executions", 1)
		o.Label("proc:closed-stdout-pipe")
		if rp.TimedOut {
			return fmt.Errorf("gofasta %v with stdout on a closed pipe did not terminate", baseArgs)
		}
		if rp.Exit == 0 {
			return fmt.Errorf("gofasta %v: stdout is a pipe without a reader (every write fails with EPIPE) but the exit status is 0\nstderr: %s", baseArgs, trunc(rp.Stderr, 300))
		}
	}
	o.NonTrivial()
	return nil
}

func genC19(t *rapid.T) c19Case {
	c := c19Case{}
	procKinds := []string{"snps", "variants", "toMultiAlign", "toPairAlign-stdout", "toPairAlign-symlink", "closest", "updown-list", "topranking"}
	if gofastaBin() != "" && rapid.IntRange(0, 3).Draw(t, "procLevel") == 0 {
		c.Proc = rapid.SampledFrom(procKinds).Draw(t, "procKind")
		c.Flag = rapid.Bool().Draw(t, "flag")
	} else {
		c.Entry = rapid.SampledFrom(c19Entries).Draw(t, "entry")
	}
	key := c.Entry + c.Proc
	if c.Proc == "" && rapid.IntRange(0, 9).Draw(t, "large") == 0 {
		c.Large = rapid.IntRange(2500, 5000).Draw(t, "largeN")
		for i := 0; i < 8; i++ {
			c.Picks = append(c.Picks, rapid.IntRange(0, 1000).Draw(t, "pick"))
		}
	}
	switch {
	case strings.HasPrefix(key, "snps"):
		s := genC03(t)
		for len(s.Recs) < 3 {
			s.Recs = append(s.Recs, FaRec{ID: fmt.Sprintf("x%d", len(s.Recs)), Seq: s.Recs[0].Seq})
		}
		if c.Large > 0 {
			// derived from the reference with a couple of SNPs so every row is non-empty
			base := []byte(strings.ToUpper(s.Ref.Seq))
			for i := range base {
				if !isACGT(base[i]) {
					base[i] = 'A'
				}
			}
			base[0] = transitionOf(base[0])
			base[len(base)-1] = transitionOf(base[len(base)-1])
			s.Ref.Seq = strings.ToUpper(s.Ref.Seq)
			for len(s.Recs) < c.Large {
				s.Recs = append(s.Recs, FaRec{ID: fmt.Sprintf("sample_number_%06d", len(s.Recs)), Seq: string(base)})
			}
		}
		c.Snps = &s
	case strings.Contains(key, "variants"):
		vc := genVarCase(t, "aa")
		if c.Proc != "" || strings.HasPrefix(c.Entry, "variants") {
			for vc.Form != "msa" || vc.Msa.RefAt < 0 {
				vc.Form = "msa"
				m := genMSA(t, vc.Anno, 4, true)
				vc.Msa, vc.Sam = &m, nil
			}
		} else {
			for vc.Form != "sam" {
				vc.Form = "sam"
				in := genSamInput(t, samGenOpts{maxQueries: 4, maxRecs: 2, fixedRef: vc.Anno.Ref, fixedRefName: vc.Anno.RefName})
				vc.Sam, vc.Msa = &in, nil
				vc.RefFromFile = true
			}
		}
		c.Var = &vc
	case strings.HasPrefix(key, "toMultiAlign") || strings.HasPrefix(key, "toPairAlign"):
		in := genSamInput(t, samGenOpts{maxRef: 30, maxQueries: 5, maxRecs: 2})
		if c.Large > 0 {
			names := in.queryNames()
			for k := 0; len(in.Recs) < c.Large; k++ {
				for _, r := range in.recordsOf(names[k%len(names)]) {
					r.Name = fmt.Sprintf("sample_number_%06d", k)
					in.Recs = append(in.Recs, r)
				}
			}
		}
		c.Sam = &in
	case strings.HasPrefix(key, "closest"):
		cl := genC06(t)
		c.Clo = &cl
	default:
		u := genC08(t)
		if c.Large > 0 && c.Entry == "updown-list" {
			for k := 0; len(u.Targets) < c.Large; k++ {
				u.Targets = append(u.Targets, FaRec{ID: fmt.Sprintf("sample_number_%06d", k), Seq: u.Targets[k%len(u.Targets)].Seq})
			}
		}
		c.UD = &u
	}
	return c
}

func TestC19(t *testing.T) { runProp(t, "C19", genC19, checkC19) }
