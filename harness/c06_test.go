package harness

// C06 — closest returns exactly the nearest targets under the documented total order
// (distance asc, completeness desc, file position asc), within -d, first -n.

import (
	"bytes"
	"fmt"
	"math"
	"sort"
	"strconv"
	"strings"
	"testing"

	"github.com/virus-evolution/gofasta/pkg/closest"
	"pgregory.net/rapid"
)

type c06Case struct {
	Queries []FaRec `json:"queries"`
	Targets []FaRec `json:"targets"`
	Measure string  `json:"measure"`
	Mode    string  `json:"mode"` // plain | n | d | nd
	K       int     `json:"k"`
	D       float64 `json:"d"`
	Table   bool    `json:"table"`
	Threads int     `json:"threads"`
	TLay    Layout  `json:"t_layout"`
	CLI     bool    `json:"cli,omitempty"`
}

type c06Target struct {
	idx     int
	id      string
	dist    float64
	defined bool
	score   int64
	key     string // for tn93: tuple that makes two distances bit-identical in any implementation
	unsure  bool   // tn93: defined by the formula but within 0.02 of the edge of its domain
}

func c06Rank(q FaRec, targets []FaRec, measure string) []c06Target {
	out := make([]c06Target, len(targets))
	for i, t := range targets {
		pc := countPair(q.Seq, t.Seq)
		ct := c06Target{idx: i, id: t.ID, score: completenessScore(t.Seq)}
		switch measure {
		case "snp":
			ct.dist, ct.defined = pc.snpDist(), true
		case "raw":
			ct.dist, ct.defined = pc.rawDist()
		case "tn93":
			var margin float64
			ct.dist, ct.defined, margin = pc.tn93Dist()
			if ct.defined && margin < 0.02 {
				ct.defined = false // too close to the edge of the domain to compare floats reliably
				ct.unsure = true   // gofasta may well compute a finite distance for it, and rank it anywhere
			}
			ct.key = fmt.Sprint(pc.P1, pc.P2, pc.Q, pc.L, pc.tA, pc.tC, pc.tG, pc.tT)
		}
		out[i] = ct
	}
	return out
}

// expectedOrder: defined targets under the documented total order.
func c06Sorted(ts []c06Target) []c06Target {
	var d []c06Target
	for _, t := range ts {
		if t.defined {
			d = append(d, t)
		}
	}
	sort.SliceStable(d, func(i, j int) bool {
		if d[i].dist != d[j].dist {
			return d[i].dist < d[j].dist
		}
		if d[i].score != d[j].score {
			return d[i].score > d[j].score
		}
		return d[i].idx < d[j].idx
	})
	return d
}

func checkC06(c c06Case, o *Obs) error {
	qt, tt := renderFasta(c.Queries, plainLayout()), renderFasta(c.Targets, c.TLay)
	var out bytes.Buffer
	K, D := c.K, -1.0
	switch c.Mode {
	case "plain":
		K = 1
		if err := mustRun("closest.Closest", func() error {
			return closest.Closest(strings.NewReader(qt), strings.NewReader(tt), c.Measure, &out, c.Threads)
		}); err != nil {
			return err
		}
	default:
		if c.Mode == "d" {
			K = 0
		}
		if c.Mode == "d" || c.Mode == "nd" {
			D = c.D
		}
		if err := mustRun("closest.ClosestN", func() error {
			return closest.ClosestN(K, D, strings.NewReader(qt), strings.NewReader(tt), c.Measure, &out, c.Table, c.Threads)
		}); err != nil {
			return err
		}
	}
	o.Label("mode:" + c.Mode)
	o.Label("measure:" + c.Measure)
	o.LabelIf(c.Table, "table")
	o.LabelIf(len(c.Targets) > 12, "targets>12")
	o.LabelIf(len(c.Targets[0].Seq) >= 32000, "genome-sized-near-ties")
	o.LabelIf((c.Mode == "d" || c.Mode == "nd") && c.D >= 1e9, "max-dist-huge")
	o.LabelIf(sharesName(c.Queries, c.Targets), "query-named-like-a-target")
	o.LabelIf(len(c.Targets[0].Seq) >= 64, "width>=64")
	lines := splitLines(out.String())
	if len(lines) == 0 {
		return fmt.Errorf("no output")
	}
	// parse into per-query returned lists (+ distances when printed)
	got := map[string][]string{}
	gotDist := map[string][]string{}
	gotSNPs := map[string]string{}
	var rowOrder []string
	switch {
	case c.Mode == "plain":
		if lines[0] != "query,closest,distance,SNPs" {
			return fmt.Errorf("bad header %q", lines[0])
		}
		for _, l := range lines[1:] {
			f := strings.SplitN(l, ",", 4)
			if len(f) != 4 {
				return fmt.Errorf("bad row %q", l)
			}
			rowOrder = append(rowOrder, f[0])
			got[f[0]] = []string{f[1]}
			gotDist[f[0]] = []string{f[2]}
			gotSNPs[f[0]] = f[3]
		}
	case c.Table:
		if lines[0] != "query,target,distance" {
			return fmt.Errorf("bad header %q", lines[0])
		}
		for _, l := range lines[1:] {
			f := strings.Split(l, ",")
			if len(f) != 3 {
				return fmt.Errorf("bad row %q", l)
			}
			if len(rowOrder) == 0 || rowOrder[len(rowOrder)-1] != f[0] {
				if _, seen := got[f[0]]; seen {
					return fmt.Errorf("table rows of query %s are not contiguous", f[0])
				}
				rowOrder = append(rowOrder, f[0])
			}
			got[f[0]] = append(got[f[0]], f[1])
			gotDist[f[0]] = append(gotDist[f[0]], f[2])
		}
	default:
		if lines[0] != "query,closest" {
			return fmt.Errorf("bad header %q", lines[0])
		}
		for _, l := range lines[1:] {
			f := strings.Split(l, ",")
			if len(f) != 2 {
				return fmt.Errorf("bad row %q", l)
			}
			rowOrder = append(rowOrder, f[0])
			if f[1] != "" {
				got[f[0]] = strings.Split(f[1], ";")
			} else {
				got[f[0]] = nil
			}
		}
	}
	// rows follow query-file order (in table form a query with an empty result has no rows)
	qi := 0
	for _, r := range rowOrder {
		for qi < len(c.Queries) && c.Queries[qi].ID != r {
			if !(c.Table && c.Mode != "plain") {
				return fmt.Errorf("rows not in query-file order: got %v", rowOrder)
			}
			qi++
		}
		if qi == len(c.Queries) {
			return fmt.Errorf("rows not in query-file order / unknown query: got %v", rowOrder)
		}
		qi++
	}
	if !(c.Table && c.Mode != "plain") && len(rowOrder) != len(c.Queries) {
		return fmt.Errorf("%d rows for %d queries", len(rowOrder), len(c.Queries))
	}

	nt := false
	for _, q := range c.Queries {
		ranked := c06Rank(q, c.Targets, c.Measure)
		byID := map[string]c06Target{}
		for _, t := range ranked {
			byID[t.id] = t
		}
		sorted := c06Sorted(ranked)
		// candidates within D
		var within []c06Target
		for _, t := range sorted {
			if D == -1.0 || t.dist <= D {
				within = append(within, t)
			}
		}
		k := K
		if k == 0 || k > len(within) {
			k = len(within)
		}
		want := within[:k]
		res := got[q.ID]
		seen := map[string]bool{}
		var resDefined []c06Target
		undefinedSeen := false
		for _, id := range res {
			t, ok := byID[id]
			if !ok {
				return fmt.Errorf("query %s: returned unknown target %q", q.ID, id)
			}
			if seen[id] {
				return fmt.Errorf("query %s: target %s returned twice", q.ID, id)
			}
			seen[id] = true
			if t.defined {
				if undefinedSeen && c.Measure != "tn93" {
					return fmt.Errorf("query %s: target %s with undefined distance is listed before %s whose distance is defined (%v)\nreturned %v", q.ID, "(earlier)", id, t.dist, res)
				}
				resDefined = append(resDefined, t)
			} else {
				undefinedSeen = true
				o.Label("undefined-returned")
			}
		}
		if K > 0 && len(res) > K {
			return fmt.Errorf("query %s: %d targets returned for -n %d", q.ID, len(res), K)
		}
		undefinedPresent := false
		for _, t := range ranked {
			if !t.defined {
				undefinedPresent = true
			}
		}
		// non-triviality: tie at the K boundary, completeness tie-break, or undefined target present
		if k > 0 && k < len(within) && within[k-1].dist == within[k].dist {
			nt = true
			o.Label("tie-at-boundary")
			if within[k-1].score != within[k].score {
				o.Label("boundary-tie-broken-by-completeness")
			} else {
				o.Label("boundary-tie-broken-by-file-order")
			}
		}
		for i := 1; i < k; i++ {
			if want[i-1].dist == want[i].dist && want[i-1].score != want[i].score {
				nt = true
				o.Label("completeness-tiebreak-inside")
			}
		}
		if undefinedPresent {
			nt = true
			o.Label("undefined-target-present")
		}
		ids := func(ts []c06Target) []string {
			var s []string
			for _, t := range ts {
				s = append(s, fmt.Sprintf("%s(d=%v,c=%d)", t.id, t.dist, t.score))
			}
			return s
		}
		if c.Measure != "tn93" {
			// exact expected list
			if len(resDefined) != len(want) {
				return fmt.Errorf("query %s (%s, mode %s, K=%d, D=%v): returned %v; documented order gives %v", q.ID, c.Measure, c.Mode, K, D, res, ids(want))
			}
			for i := range want {
				if resDefined[i].id != want[i].id {
					return fmt.Errorf("query %s (%s, mode %s, K=%d, D=%v): returned %v; documented order gives %v (all: %v)", q.ID, c.Measure, c.Mode, K, D, res, ids(want), ids(sorted))
				}
			}
		} else {
			// validity predicate with float tolerance
			const eps = 1e-9
			for i := 1; i < len(resDefined); i++ {
				a, b := resDefined[i-1], resDefined[i]
				if a.dist > b.dist+eps {
					return fmt.Errorf("query %s tn93: returned list not sorted by distance: %v", q.ID, ids(resDefined))
				}
				if a.key == b.key { // bit-identical distances: tie-break must be exact
					if a.score < b.score || (a.score == b.score && a.idx > b.idx) {
						return fmt.Errorf("query %s tn93: tie between %s and %s broken against completeness/file order: %v", q.ID, a.id, b.id, ids(resDefined))
					}
				}
			}
			if D != -1.0 {
				for _, t := range resDefined {
					if t.dist > D+eps {
						return fmt.Errorf("query %s tn93: %s at %v returned beyond -d %v", q.ID, t.id, t.dist, D)
					}
				}
			}
			// count: all within (D-eps) up to K must be present
			sure := 0
			for _, t := range sorted {
				if D == -1.0 || t.dist <= D-eps {
					sure++
				}
			}
			if K > 0 && sure > K {
				sure = K
			}
			// near-singular targets (unsure) that were returned may rightly hold slots: their true distance can be anything
			returnedUnsure := 0
			for _, id := range res {
				if byID[id].unsure {
					returnedUnsure++
				}
			}
			if len(resDefined)+returnedUnsure < sure {
				return fmt.Errorf("query %s tn93: only %d defined targets returned, at least %d qualify: got %v all %v", q.ID, len(resDefined), sure, res, ids(sorted))
			}
			if len(resDefined) > 0 {
				last := resDefined[len(resDefined)-1]
				for _, t := range sorted {
					if seen[t.id] || (D != -1.0 && t.dist > D-eps) {
						continue
					}
					full := K > 0 && len(res) >= K
					if !full {
						return fmt.Errorf("query %s tn93: %s (d=%v) omitted although the list is not full: %v", q.ID, t.id, t.dist, res)
					}
					if t.dist < last.dist-eps {
						return fmt.Errorf("query %s tn93: omitted %s (d=%v) is closer than returned %s (d=%v)", q.ID, t.id, t.dist, last.id, last.dist)
					}
					if t.key == last.key && (t.score > last.score || (t.score == last.score && t.idx < last.idx)) {
						return fmt.Errorf("query %s tn93: omitted %s ties with returned %s and precedes it by completeness/file order", q.ID, t.id, last.id)
					}
				}
			} else if sure > 0 {
				return fmt.Errorf("query %s tn93: nothing returned, %d qualify", q.ID, sure)
			}
		}
		// an undefined-distance target must never occupy a slot that a defined one within D should have
		if K > 0 && len(res) == K && len(resDefined) < len(res) && len(resDefined) < len(within) && c.Measure != "tn93" {
			return fmt.Errorf("query %s: undefined-distance target displaced a defined one: returned %v, defined candidates %v", q.ID, res, ids(within))
		}
		// the listed SNPs are those of the returned pair (every column with disjoint base sets, as <pos><query><target>)
		if c.Mode == "plain" && len(res) == 1 {
			for _, t := range c.Targets {
				if t.ID == res[0] {
					if want := strings.Join(countPair(q.Seq, t.Seq).snpsList, ";"); gotSNPs[q.ID] != want {
						return fmt.Errorf("query %s: SNP column for the returned target %s is %q; the pair's certainly-different columns are %q", q.ID, t.ID, gotSNPs[q.ID], want)
					}
				}
			}
		}
		// printed distances are those of the returned pairs
		if ds, ok := gotDist[q.ID]; ok {
			for i, id := range res {
				t := byID[id]
				if !t.defined {
					continue
				}
				if c.Measure == "tn93" {
					g, err := strconv.ParseFloat(ds[i], 64)
					if err != nil || math.Abs(g-t.dist) > 5e-9 {
						return fmt.Errorf("query %s: printed tn93 distance to %s is %s, eq.7 gives %.12f", q.ID, id, ds[i], t.dist)
					}
				} else if ds[i] != fmtDist(c.Measure, t.dist) {
					return fmt.Errorf("query %s: printed %s distance to %s is %s, definition gives %s", q.ID, c.Measure, id, ds[i], fmtDist(c.Measure, t.dist))
				}
			}
		}
	}
	if nt {
		o.NonTrivial()
	}
	if c.CLI && gofastaBin() != "" {
		dir, cleanup := caseDir("c06cli")
		defer cleanup()
		args := []string{"closest", "--query", writeFile(dir, "q.fa", qt), "--target", writeFile(dir, "t.fa", tt), "-m", cliSpelling(c.Measure, len(qt)+len(tt)), "-t", strconv.Itoa(c.Threads)}
		switch c.Mode {
		case "n":
			args = append(args, "-n", strconv.Itoa(c.K))
		case "d":
			args = append(args, "-d", strconv.FormatFloat(c.D, 'g', -1, 64))
		case "nd":
			args = append(args, "-n", strconv.Itoa(c.K), "-d", strconv.FormatFloat(c.D, 'g', -1, 64))
		}
		if c.Table && c.Mode != "plain" {
			args = append(args, "--table")
		}
		if err := cliAgree(o, "closest", out.String(), args...); err != nil {
			return err
		}
	}
	return nil
}

// genC06 builds targets that force ties: copies, column permutations are replaced here by
// "same differences at other columns", same distance with different completeness (ambiguity padding
// in columns that do not change the distance), all-N / heavily ambiguous targets anywhere.
// genC06NearTies: genome-sized rows whose distances to the query differ only in the tenth decimal and beyond (one N more or
// less among tens of thousands of compared columns): close is not equal, the nearer target wins.
func genC06NearTies(t *rapid.T) c06Case {
	c := c06Case{Measure: rapid.SampledFrom([]string{"raw", "raw", "tn93"}).Draw(t, "measure"), Threads: rapid.SampledFrom([]int{1, 2}).Draw(t, "threads")}
	w := rapid.SampledFrom([]int{32000, 40000, 70000}).Draw(t, "nearTieWidth")
	unit := genBalancedTarget(t, 997)
	base := make([]byte, w)
	for i := range base {
		base[i] = unit[i%997]
	}
	// the query has a few unresolved columns of its own: a target's N there costs completeness but no compared column, an N
	// elsewhere costs both, a two-fold code costs a compared column and less completeness - so "further" and "less complete"
	// come apart
	q := append([]byte(nil), base...)
	var qN []int
	for k := rapid.IntRange(0, 3).Draw(t, "nQueryN"); k > 0; k-- {
		p := rapid.IntRange(0, w-1).Draw(t, "queryNPos")
		q[p] = 'N'
		qN = append(qN, p)
	}
	c.Queries = []FaRec{{ID: "q0", Seq: string(q)}}
	nT := rapid.IntRange(2, 6).Draw(t, "nT")
	nSNP := rapid.IntRange(1, 2).Draw(t, "nSNP")
	for i := 0; i < nT; i++ {
		b := append([]byte(nil), base...)
		for k := nSNP; k > 0; k-- {
			p := rapid.IntRange(0, w-1).Draw(t, "snpPos")
			b[p] = transitionOf(base[p])
		}
		for k := rapid.IntRange(0, 2).Draw(t, "nN"); k > 0; k-- {
			p := rapid.IntRange(0, w-1).Draw(t, "nPos")
			if len(qN) > 0 && rapid.Bool().Draw(t, "underQueryN") {
				p = qN[rapid.IntRange(0, len(qN)-1).Draw(t, "whichQueryN")]
			}
			sym := byte('N')
			if rapid.IntRange(0, 2).Draw(t, "twoFold") == 0 {
				sym = symbolForSet(mustSet(base[p], false) | mustSet(transitionOf(base[p]), false)) // R or Y: contains the base
			}
			b[p] = sym
		}
		c.Targets = append(c.Targets, FaRec{ID: fmt.Sprintf("t%d", i), Seq: string(b)})
	}
	c.Mode = rapid.SampledFrom([]string{"plain", "n", "n"}).Draw(t, "mode")
	c.Table = rapid.Bool().Draw(t, "table")
	c.K = rapid.IntRange(1, nT).Draw(t, "k")
	c.TLay = Layout{FinalNL: true, Width: rapid.SampledFrom([]int{0, 60}).Draw(t, "wrap")}
	return c
}

func genC06(t *rapid.T) c06Case {
	if oneIn(t, "nearTies", 120) {
		return genC06NearTies(t)
	}
	c := c06Case{Measure: rapid.SampledFrom([]string{"raw", "snp", "snp", "tn93"}).Draw(t, "measure")}
	c.Threads = rapid.SampledFrom([]int{0, 1, 2, 16}).Draw(t, "threads")
	w := rapid.IntRange(6, 30).Draw(t, "width")
	wide := rapid.IntRange(0, 7).Draw(t, "wide") == 0
	if wide {
		// block-sized widths (multiples of 64 and their neighbours): vectorised / blocked loops have their edge cases here
		w = rapid.SampledFrom([]int{64, 65, 127, 128, 129, 192, 193, 256, 320, 200}).Draw(t, "wideWidth")
	}
	base := genBalancedTarget(t, w)
	if wide && rapid.Bool().Draw(t, "periodicBase") {
		// unit-periodic base: wrapped at the unit length, consecutive lines of a record are identical
		u := rapid.SampledFrom([]int{64, 70, 80}).Draw(t, "unit")
		unit := genBalancedTarget(t, u)
		for i := range base {
			base[i] = unit[i%u]
		}
	}
	nq := rapid.IntRange(1, 3).Draw(t, "nq")
	for i := 0; i < nq; i++ {
		q := append([]byte(nil), base...)
		for k := rapid.IntRange(0, 2).Draw(t, "qmut"); k > 0; k-- {
			p := rapid.IntRange(0, w-1).Draw(t, "qmutPos")
			q[p] = transitionOf(q[p])
		}
		if rapid.IntRange(0, 4).Draw(t, "qamb") == 0 {
			q[rapid.IntRange(0, w-1).Draw(t, "qambPos")] = 'N'
		}
		if rapid.IntRange(0, 4).Draw(t, "qIupac") == 0 {
			// an ambiguity code in the query (contains or excludes the base's position: both occur)
			q[rapid.IntRange(0, w-1).Draw(t, "qIupacPos")] = iupac15[4+rapid.IntRange(0, 9).Draw(t, "qIupacSym")]
		}
		if wide && rapid.Bool().Draw(t, "qMasked") {
			// long masked stretches (N, -, ?) anywhere but not necessarily at the end
			for k := rapid.IntRange(1, 3).Draw(t, "nMaskRuns"); k > 0; k-- {
				p := rapid.IntRange(0, w-1).Draw(t, "maskPos")
				n := rapid.IntRange(20, 90).Draw(t, "maskLen")
				sym := rapid.SampledFrom([]byte{'N', '-', '?'}).Draw(t, "maskSym")
				for j := p; j < p+n && j < w; j++ {
					q[j] = sym
				}
			}
		}
		c.Queries = append(c.Queries, FaRec{ID: fmt.Sprintf("q%d", i), Seq: string(q)})
	}
	nT := rapid.IntRange(1, 12).Draw(t, "nt")
	if rapid.IntRange(0, 2).Draw(t, "manyTargets") == 0 {
		// large catchments: sorting algorithms behave differently beyond a dozen elements (insertion sort
		// below, unstable partitioning above), and ties on distance AND completeness must still follow file order
		nT = rapid.IntRange(13, 48).Draw(t, "ntMany")
	}
	var pool [][]byte // earlier targets to copy / pad
	for i := 0; i < nT; i++ {
		var s []byte
		kind := rapid.IntRange(0, 9).Draw(t, "tkind")
		switch {
		case kind == 0: // all-N (undefined for raw/tn93)
			s = []byte(strings.Repeat("N", w))
		case kind == 1: // heavily ambiguous
			s = append([]byte(nil), base...)
			for p := range s {
				if rapid.IntRange(0, 3).Draw(t, "heavy") != 0 {
					s[p] = alpha17[4+rapid.IntRange(0, 12).Draw(t, "heavySym")]
				}
			}
		case (kind <= 3 || (nT > 12 && kind <= 6)) && len(pool) > 0: // exact copy of an earlier target (tie on everything but file order)
			s = append([]byte(nil), pool[rapid.IntRange(0, len(pool)-1).Draw(t, "copyOf")]...)
		case kind <= 5 && len(pool) > 0: // same distance, lower completeness: ambiguity code containing the original base
			s = append([]byte(nil), pool[rapid.IntRange(0, len(pool)-1).Draw(t, "padOf")]...)
			for k := rapid.IntRange(1, 2).Draw(t, "npad"); k > 0; k-- {
				p := rapid.IntRange(0, w-1).Draw(t, "padPos")
				if isACGT(s[p]) {
					// a code that still contains every query's base at p keeps snp distance unchanged
					set := mustSet(s[p], false)
					for _, q := range c.Queries {
						set |= mustSet(q.Seq[p], false)
					}
					if rapid.Bool().Draw(t, "padN") {
						set = 15
					}
					if popcount4(set) > 1 {
						s[p] = symbolForSet(set)
					}
				}
			}
		default: // base with 0..3 substitutions at drawn columns (few columns -> frequent distance ties)
			s = append([]byte(nil), base...)
			for k := rapid.IntRange(0, 3).Draw(t, "tmut"); k > 0; k-- {
				p := rapid.IntRange(0, w-1).Draw(t, "tmutPos")
				if rapid.Bool().Draw(t, "tTransition") {
					s[p] = transitionOf(base[p])
				} else {
					s[p] = transversionOf(t, base[p])
				}
			}
		}
		pool = append(pool, s)
		c.Targets = append(c.Targets, FaRec{ID: fmt.Sprintf("t%d", i), Seq: randomCase(t, string(s), "tcase")})
	}
	c.Mode = rapid.SampledFrom([]string{"plain", "n", "n", "d", "nd"}).Draw(t, "mode")
	c.Table = rapid.Bool().Draw(t, "table")
	c.K = rapid.IntRange(1, nT+1).Draw(t, "k")
	// D: equal to an occurring distance, just below, just above
	ranked := c06Rank(c.Queries[0], c.Targets, c.Measure)
	var ds []float64
	for _, r := range ranked {
		if r.defined {
			ds = append(ds, r.dist)
		}
	}
	if len(ds) == 0 {
		ds = []float64{0}
	}
	d := ds[rapid.IntRange(0, len(ds)-1).Draw(t, "dOf")]
	switch rapid.IntRange(0, 2).Draw(t, "dShift") {
	case 1:
		if c.Measure == "snp" {
			d -= 1
		} else {
			d -= 1e-6
		}
	case 2:
		if c.Measure == "snp" {
			d += 1
		} else {
			d += 1e-6
		}
	}
	if d < 0 {
		d = 0
	}
	if c.Measure == "tn93" {
		// keep D away from occurring tn93 distances so that float rounding cannot flip the filter
		d = math.Round(d*1e4)/1e4 + 5e-5
	}
	if rapid.IntRange(0, 9).Draw(t, "hugeD") == 0 {
		// "no limit in practice": values beyond any distance, also beyond what fits an integer
		d = rapid.SampledFrom([]float64{1e9, 1e19, 1e300}).Draw(t, "hugeDValue")
	}
	c.D = d
	c.TLay = genLayout(t, w)
	if wide {
		c.TLay.Width = rapid.SampledFrom([]int{0, 60, 64, 70, 80, 64}).Draw(t, "wideWrap")
	}
	c.CLI = rapid.IntRange(0, 19).Draw(t, "cli") == 0
	shareNames(t, c.Queries, c.Targets)
	return c
}

func TestC06(t *testing.T) { runProp(t, "C06", genC06, checkC06) }

// shareNames: in one case in four the queries are named like records of the target file (the everyday use: looking up the
// neighbours of sequences that are themselves in the database), whatever their sequences are; names carry no meaning for
// any distance or order.
func shareNames(t *rapid.T, queries, targets []FaRec) {
	if len(targets) == 0 || rapid.IntRange(0, 3).Draw(t, "sharedNames") != 0 {
		return
	}
	perm := rapid.Permutation(targets).Draw(t, "sharedNameOrder")
	for i := range queries {
		if i < len(perm) {
			queries[i].ID = perm[i].ID
		}
	}
}

func sharesName(queries, targets []FaRec) bool {
	names := map[string]bool{}
	for _, r := range targets {
		names[r.ID] = true
	}
	for _, q := range queries {
		if names[q.ID] {
			return true
		}
	}
	return false
}

// cliSpelling: the command line accepts the measure in any letter case; which spelling a case uses is a pure function of the case.
func cliSpelling(measure string, k int) string {
	switch k % 3 {
	case 0:
		return strings.ToUpper(measure)
	case 1:
		return strings.ToUpper(measure[:1]) + measure[1:]
	}
	return measure
}
