package harness

// Alignment model: a reference, and per query 1..k SAM records generated from a per-query "truth"
// row so that CIGAR / SEQ / POS are consistent by construction and the expected output rows are
// computed by the model itself (never by gofasta code).

import (
	"fmt"
	"strconv"
	"strings"

	"pgregory.net/rapid"
)

type SamOp struct {
	Op  string `json:"op"`
	Len int    `json:"len"`
}

type SamRec struct {
	Name string  `json:"name"`
	Flag int     `json:"flag"`
	Pos  int     `json:"pos"` // 1-based; 0 for unmapped
	Ops  []SamOp `json:"ops"`
	Seq  string  `json:"seq"`  // "*" allowed on noise records
	Kind string  `json:"kind"` // aligned | unmapped | secondary
}

type SamInput struct {
	RefName string   `json:"ref_name"`
	Ref     string   `json:"ref"`
	Recs    []SamRec `json:"recs"`
}

func (r SamRec) cigar() string {
	if len(r.Ops) == 0 {
		return "*"
	}
	var sb strings.Builder
	for _, o := range r.Ops {
		sb.WriteString(strconv.Itoa(o.Len) + o.Op)
	}
	return sb.String()
}

func (in SamInput) render() string {
	var sb strings.Builder
	sb.WriteString("@HD\tVN:1.6\tSO:unsorted\n")
	sb.WriteString(fmt.Sprintf("@SQ\tSN:%s\tLN:%d\n", in.RefName, len(in.Ref)))
	sb.WriteString("@PG\tID:minimap2\tPN:minimap2\n")
	for _, r := range in.Recs {
		rname := in.RefName
		if r.Kind == "unmapped" {
			rname = "*"
		}
		sb.WriteString(fmt.Sprintf("%s\t%d\t%s\t%d\t60\t%s\t*\t0\t0\t%s\t*\n", r.Name, r.Flag, rname, r.Pos, r.cigar(), r.Seq))
	}
	return sb.String()
}

func (in SamInput) refFasta() string { return ">" + in.RefName + "\n" + in.Ref + "\n" }

// queryNames returns the names that have at least one aligned record, in input order.
func (in SamInput) queryNames() []string {
	var names []string
	seen := map[string]bool{}
	for _, r := range in.Recs {
		if r.Kind == "aligned" && !seen[r.Name] {
			seen[r.Name] = true
			names = append(names, r.Name)
		}
	}
	return names
}

// groups returns the query names in input order and their aligned records (one pass: use this instead of
// queryNames + recordsOf when the file may hold thousands of records).
func (in SamInput) groups() ([]string, map[string][]SamRec) {
	var names []string
	m := map[string][]SamRec{}
	for _, r := range in.Recs {
		if r.Kind != "aligned" {
			continue
		}
		if _, ok := m[r.Name]; !ok {
			names = append(names, r.Name)
		}
		m[r.Name] = append(m[r.Name], r)
	}
	return names, m
}

func (in SamInput) recordsOf(name string) []SamRec {
	var rs []SamRec
	for _, r := range in.Recs {
		if r.Kind == "aligned" && r.Name == name {
			rs = append(rs, r)
		}
	}
	return rs
}

// recProjection is what one record puts on the reference: per position 0 (nothing), '-' or a base,
// and per inter-base slot (0..L; slot p = after p reference bases) the inserted bases.
type recProjection struct {
	row []byte
	ins map[int]string
}

func projectRecord(r SamRec, L int) recProjection {
	p := recProjection{row: make([]byte, L), ins: map[int]string{}}
	rpos, qpos := r.Pos-1, 0
	for _, o := range r.Ops {
		switch o.Op {
		case "M", "=", "X":
			for k := 0; k < o.Len; k++ {
				p.row[rpos+k] = upper(r.Seq[qpos+k])
			}
			rpos += o.Len
			qpos += o.Len
		case "I":
			p.ins[rpos] += strings.ToUpper(r.Seq[qpos : qpos+o.Len])
			qpos += o.Len
		case "D":
			for k := 0; k < o.Len; k++ {
				p.row[rpos+k] = '-'
			}
			rpos += o.Len
		case "N":
			rpos += o.Len
		case "S":
			qpos += o.Len
		case "H", "P":
		}
	}
	return p
}

// queryProjection combines the records of one query: base beats deletion beats nothing, two
// different bases give 'N'. conflict reports whether any position saw two different letters;
// insClash whether two records carry an insertion in the same slot.
type queryProjection struct {
	row      []byte // 0, '-', or letter
	ins      map[int]string
	conflict bool
	insClash bool
}

func projectQuery(recs []SamRec, L int) queryProjection {
	q := queryProjection{row: make([]byte, L), ins: map[int]string{}}
	letters := make([]byte, L)
	for _, r := range recs {
		p := projectRecord(r, L)
		for i, c := range p.row {
			switch {
			case c == 0:
			case c == '-':
				if q.row[i] == 0 {
					q.row[i] = '-'
				}
			default:
				if letters[i] != 0 && letters[i] != c {
					q.conflict = true
					q.row[i] = 'N'
					letters[i] = 'N' // further letters still conflict
					if c == 'N' {
						letters[i] = 'N'
					}
				} else if letters[i] == 0 {
					letters[i] = c
					q.row[i] = c
				}
			}
		}
		for s, b := range p.ins {
			if _, ok := q.ins[s]; ok {
				q.insClash = true
			}
			q.ins[s] += b
		}
	}
	return q
}

func isLetter(b byte) bool { return (b >= 'A' && b <= 'Z') || (b >= 'a' && b <= 'z') }

// multiAlignRow is the expected `sam toMultiAlign` row (before windowing).
func (q queryProjection) multiAlignRow(pad bool) string {
	L := len(q.row)
	out := make([]byte, L)
	first, last := -1, -1
	for i, c := range q.row {
		if isLetter(c) {
			if first < 0 {
				first = i
			}
			last = i
		}
	}
	for i, c := range q.row {
		switch {
		case c != 0:
			out[i] = c
		case pad:
			out[i] = 'N'
		case first >= 0 && i > first && i < last:
			out[i] = 'N'
		default:
			out[i] = '-'
		}
	}
	return string(out)
}

func windowRow(row string, start, end int, pad bool) string {
	if start < 0 && end < 0 {
		return row
	}
	s, e := start, end
	if s < 0 {
		s = 1
	}
	if e < 0 {
		e = len(row)
	}
	if pad {
		b := []byte(row)
		for i := range b {
			if i < s-1 || i >= e {
				b[i] = 'N'
			}
		}
		return string(b)
	}
	return row[s-1 : e]
}

// pairRows is the expected `sam toPairAlign` pair for reference positions s..e (1-based inclusive).
func (q queryProjection) pairRows(ref string, s, e int, skipIns bool) (refRow, qRow string) {
	var rb, qb strings.Builder
	up := strings.ToUpper(ref)
	for p := s - 1; p < e; p++ {
		// insertion slot p sits before reference base p+1; slots outside s..e-1 are cut away
		if !skipIns && p >= s {
			if b, ok := q.ins[p]; ok {
				rb.WriteString(strings.Repeat("-", len(b)))
				qb.WriteString(b)
			}
		}
		rb.WriteByte(up[p])
		c := q.row[p]
		if c == 0 {
			c = 'N'
		}
		qb.WriteByte(c)
	}
	return rb.String(), qb.String()
}

// fullPairRows: the untrimmed pair, including insertions before the first and after the last base.
func (q queryProjection) fullPairRows(ref string, skipIns bool) (refRow, qRow string) {
	L := len(ref)
	var rb, qb strings.Builder
	up := strings.ToUpper(ref)
	for p := 0; p <= L; p++ {
		if !skipIns {
			if b, ok := q.ins[p]; ok {
				rb.WriteString(strings.Repeat("-", len(b)))
				qb.WriteString(b)
			}
		}
		if p < L {
			rb.WriteByte(up[p])
			c := q.row[p]
			if c == 0 {
				c = 'N'
			}
			qb.WriteByte(c)
		}
	}
	return rb.String(), qb.String()
}

func wrapText(s string, w int) string {
	if w <= 0 {
		return s + "\n"
	}
	var sb strings.Builder
	for i := 0; i < len(s); i += w {
		j := i + w
		if j > len(s) {
			j = len(s)
		}
		sb.WriteString(s[i:j] + "\n")
	}
	return sb.String()
}

// ---------------------------------------------------------------------------------------------
// generators

type samGenOpts struct {
	maxRef        int
	maxQueries    int
	maxRecs       int
	allowConflict bool // C01 only: two records may put different bases on one position
	allowNoise    bool
	iupacRef      bool
	slashNames    bool
	fixedRef      string // if set: use this reference (annotation properties)
	fixedRefName  string
	hugeEvery     int   // if > 0: one case in hugeEvery gets a long reference with operators longer than typical buffer sizes
	manyEvery     int   // if > 0: one case in manyEvery has thousands of queries (copies of the generated ones under new names)
	manyTargets   []int // record counts to choose from (default 300, 700, 4200, 4200, 8300)
}

func genRef(t *rapid.T, minLen, maxLen int, iupac bool) string {
	n := rapid.IntRange(minLen, maxLen).Draw(t, "refLen")
	b := []byte(genACGT(t, n, "refBase"))
	if iupac && rapid.IntRange(0, 3).Draw(t, "refIupac") == 0 {
		for k := rapid.IntRange(1, 3).Draw(t, "nRefAmb"); k > 0; k-- {
			b[rapid.IntRange(0, n-1).Draw(t, "refAmbPos")] = iupac15[4+rapid.IntRange(0, 10).Draw(t, "refAmbSym")]
		}
	}
	return string(b)
}

// genTruth: the query's true base at every reference position (mostly the reference base).
func genTruth(t *rapid.T, ref string) []byte {
	tr := []byte(strings.ToUpper(ref))
	n := len(tr)
	maxSub := 1 + n/8
	if maxSub > 40 {
		maxSub = 40 // long references: a few dozen substitutions are enough, thousands of draws are not
	}
	for k := rapid.IntRange(0, maxSub).Draw(t, "nSub"); k > 0; k-- {
		p := rapid.IntRange(0, n-1).Draw(t, "subPos")
		if rapid.IntRange(0, 4).Draw(t, "subKind") == 0 {
			tr[p] = iupac15[4+rapid.IntRange(0, 10).Draw(t, "subAmb")]
		} else {
			tr[p] = "ACGT"[rapid.IntRange(0, 3).Draw(t, "subBase")]
		}
	}
	return tr
}

var coreOps = []string{"M", "M", "M", "M", "M", "=", "X", "I", "I", "D", "D", "N", "P"}

// hugeMode is set by genSamInput for the duration of one generated case (single-threaded generator).
var hugeMode bool

func genLen(t *rapid.T, label string) int {
	if hugeMode && rapid.IntRange(0, 3).Draw(t, label+"Huge") == 0 {
		return rapid.SampledFrom([]int{255, 256, 257, 300, 513, 1025, 4095, 4096, 4097, 4100, 4500, 8193}).Draw(t, label+"HugeLen")
	}
	if rapid.IntRange(0, 14).Draw(t, label+"Long") == 0 {
		return rapid.IntRange(7, 20).Draw(t, label)
	}
	return rapid.IntRange(1, 6).Draw(t, label)
}

// genRecordOps draws a CIGAR (as ops) whose reference span is <= L and which has >= 1 aligned base.
func genRecordOps(t *rapid.T, L int) (pre, core, post []SamOp) {
	nCore := rapid.IntRange(1, 6).Draw(t, "nCore")
	for i := 0; i < nCore; i++ {
		op := rapid.SampledFrom(coreOps).Draw(t, "op")
		if len(core) > 0 && core[len(core)-1].Op == op {
			continue // merge-free: avoid identical adjacent operators
		}
		core = append(core, SamOp{Op: op, Len: genLen(t, "opLen")})
	}
	hasM := false
	for _, o := range core {
		if o.Op == "M" || o.Op == "=" || o.Op == "X" {
			hasM = true
		}
	}
	if !hasM {
		at := rapid.IntRange(0, len(core)).Draw(t, "mAt")
		m := SamOp{Op: "M", Len: genLen(t, "mLen")}
		core = append(core[:at], append([]SamOp{m}, core[at:]...)...)
	}
	// fit into the reference: shrink reference-consuming ops until span <= L, keeping >= 1 aligned base
	span := func() int {
		s := 0
		for _, o := range core {
			switch o.Op {
			case "M", "=", "X", "D", "N":
				s += o.Len
			}
		}
		return s
	}
	for span() > L {
		// shrink the longest reference-consuming op
		bi, bl := -1, 0
		for i, o := range core {
			switch o.Op {
			case "M", "=", "X", "D", "N":
				if o.Len > bl {
					bi, bl = i, o.Len
				}
			}
		}
		if bl > 1 {
			core[bi].Len--
			continue
		}
		// all have length 1: drop a non-aligned reference consumer, or a surplus aligned op
		dropped := false
		for i, o := range core {
			if o.Op == "D" || o.Op == "N" {
				core = append(core[:i], core[i+1:]...)
				dropped = true
				break
			}
		}
		if !dropped {
			for i := len(core) - 1; i >= 0; i-- {
				if core[i].Op == "M" || core[i].Op == "=" || core[i].Op == "X" {
					core = append(core[:i], core[i+1:]...)
					break
				}
			}
		}
	}
	// clips
	if rapid.IntRange(0, 3).Draw(t, "leftClip") == 0 {
		switch rapid.IntRange(0, 2).Draw(t, "leftClipKind") {
		case 0:
			pre = []SamOp{{"S", genLen(t, "clipLen")}}
		case 1:
			pre = []SamOp{{"H", genLen(t, "clipLen")}}
		default:
			pre = []SamOp{{"H", genLen(t, "clipLen")}, {"S", genLen(t, "clipLen")}}
		}
	}
	if rapid.IntRange(0, 3).Draw(t, "rightClip") == 0 {
		switch rapid.IntRange(0, 2).Draw(t, "rightClipKind") {
		case 0:
			post = []SamOp{{"S", genLen(t, "clipLen")}}
		case 1:
			post = []SamOp{{"H", genLen(t, "clipLen")}}
		default:
			post = []SamOp{{"S", genLen(t, "clipLen")}, {"H", genLen(t, "clipLen")}}
		}
	}
	return
}

func refSpan(ops []SamOp) int {
	s := 0
	for _, o := range ops {
		switch o.Op {
		case "M", "=", "X", "D", "N":
			s += o.Len
		}
	}
	return s
}

// genAlignedRecord builds one record of a query. usedSlots: insertion slots already taken by other
// records of the same query (an insertion shared by two overlapping records has no single answer).
func genAlignedRecord(t *rapid.T, name string, flag int, ref string, truth []byte, usedSlots map[int]bool, conflict bool) SamRec {
	L := len(ref)
	for attempt := 0; ; attempt++ {
		pre, core, post := genRecordOps(t, L)
		span := refSpan(core)
		maxPos := L - span + 1
		var pos int
		switch rapid.IntRange(0, 5).Draw(t, "posKind") {
		case 0:
			pos = 1
		case 1:
			pos = maxPos
		default:
			pos = rapid.IntRange(1, maxPos).Draw(t, "pos")
		}
		// insertion slots of this record
		clash := false
		rp := pos - 1
		slots := []int{}
		for _, o := range core {
			switch o.Op {
			case "I":
				if usedSlots[rp] {
					clash = true
				}
				for _, s := range slots {
					if s == rp {
						clash = true // I..P..I or I,D,I at the same slot inside one record: keep one insertion per slot
					}
				}
				slots = append(slots, rp)
			case "M", "=", "X", "D", "N":
				rp += o.Len
			}
		}
		if clash && attempt < 20 {
			continue
		}
		if clash {
			// give up on insertions for this record
			var c2 []SamOp
			for _, o := range core {
				if o.Op != "I" {
					c2 = append(c2, o)
				}
			}
			core = c2
			slots = nil
		}
		for _, s := range slots {
			usedSlots[s] = true
		}
		var seq strings.Builder
		for _, o := range pre {
			if o.Op == "S" {
				seq.WriteString(genACGT(t, o.Len, "clipBase"))
			}
		}
		rp = pos - 1
		for _, o := range core {
			switch o.Op {
			case "M", "=", "X":
				for k := 0; k < o.Len; k++ {
					b := truth[rp+k]
					if conflict && rapid.IntRange(0, 5).Draw(t, "conflictHere") == 0 {
						b = "ACGT"[rapid.IntRange(0, 3).Draw(t, "conflictBase")]
					}
					seq.WriteByte(b)
				}
				rp += o.Len
			case "I":
				seq.WriteString(genACGT(t, o.Len, "insBase"))
			case "D", "N":
				rp += o.Len
			}
		}
		for _, o := range post {
			if o.Op == "S" {
				seq.WriteString(genACGT(t, o.Len, "clipBase"))
			}
		}
		ops := append(append(append([]SamOp{}, pre...), core...), post...)
		s := seq.String()
		if rapid.IntRange(0, 5).Draw(t, "lowerSeq") == 0 {
			s = strings.ToLower(s)
		}
		return SamRec{Name: name, Flag: flag, Pos: pos, Ops: ops, Seq: s, Kind: "aligned"}
	}
}

func genNoiseRecord(t *rapid.T, name string, ref string) SamRec {
	if rapid.Bool().Draw(t, "noiseUnmapped") {
		return SamRec{Name: name, Flag: 4, Pos: 0, Seq: genACGT(t, rapid.IntRange(1, 8).Draw(t, "unmappedLen"), "unmappedBase"), Kind: "unmapped"}
	}
	// secondary alignment: CIGAR present, SEQ '*' (as minimap2 writes) or full
	L := len(ref)
	n := rapid.IntRange(1, L).Draw(t, "secLen")
	pos := rapid.IntRange(1, L-n+1).Draw(t, "secPos")
	seq := "*"
	if rapid.Bool().Draw(t, "secHasSeq") {
		seq = genACGT(t, n, "secBase") // deliberately NOT the truth: must never contribute
	}
	flag := 256
	if rapid.Bool().Draw(t, "secRev") {
		flag |= 16
	}
	return SamRec{Name: name, Flag: flag, Pos: pos, Ops: []SamOp{{"M", n}}, Seq: seq, Kind: "secondary"}
}

func genSamInput(t *rapid.T, o samGenOpts) SamInput {
	in := SamInput{RefName: rapid.SampledFrom([]string{"ref", "MN908947.3", "chr1"}).Draw(t, "refName")}
	huge := o.hugeEvery > 0 && o.fixedRef == "" && rapid.IntRange(0, o.hugeEvery-1).Draw(t, "hugeCase") == 0
	if o.fixedRef != "" {
		in.Ref, in.RefName = o.fixedRef, o.fixedRefName
	} else if huge {
		// a reference longer than 4096 / 8192 so that single operators can exceed typical buffer sizes
		n := rapid.SampledFrom([]int{600, 1100, 4200, 5000, 8300, 9000}).Draw(t, "hugeRefLen")
		unit := genACGT(t, 97, "hugeRefUnit") // aperiodic enough: 97 is prime and the unit is random
		in.Ref = strings.Repeat(unit, n/97+1)[:n]
	} else {
		in.Ref = genRef(t, 6, o.maxRef, o.iupacRef)
	}
	hugeMode = huge
	nq := rapid.IntRange(1, o.maxQueries).Draw(t, "nQueries")
	if huge && nq > 2 {
		nq = 2 // long references: gofasta's per-column flattening of multi-record queries is slow, keep the case cheap
	}
	if !huge && len(in.Ref) <= 20000 && sizeClass(t, "sam") == 1 {
		nq = rapid.IntRange(40, 80).Draw(t, "nQueriesMany")
	}
	var names []string
	for qi := 0; qi < nq; qi++ {
		name := genID(t, qi, "qname")
		if o.slashNames && rapid.IntRange(0, 9).Draw(t, "slashName") == 0 {
			name = "hCoV-19/x/" + name
		}
		names = append(names, name)
	}
	for qi, name := range names {
		truth := genTruth(t, in.Ref)
		nrec := 1
		if o.maxRecs >= 2 && rapid.IntRange(0, 9).Draw(t, "multi") < 4 {
			nrec = rapid.IntRange(2, o.maxRecs).Draw(t, "nRecs")
		}
		if o.maxRecs >= 3 && !huge && rapid.IntRange(0, 24).Draw(t, "fragmented") == 0 {
			// a query in many pieces (a fragmented assembly): more records than any per-query fixed-size structure (8, 16, 32, 64)
			nrec = rapid.SampledFrom([]int{9, 10, 12, 16, 17, 20, 33, 40, 65, 70}).Draw(t, "nRecsFragmented")
		}
		used := map[int]bool{}
		conflict := o.allowConflict && nrec > 1 && rapid.IntRange(0, 3).Draw(t, "conflictQuery") == 0
		for ri := 0; ri < nrec; ri++ {
			flag := 0
			if ri > 0 {
				flag = 2048
			}
			if rapid.IntRange(0, 3).Draw(t, "revFlag") == 0 {
				flag |= 16
			}
			if rapid.IntRange(0, 5).Draw(t, "otherFlagBits") == 0 {
				// bits that say nothing about whether the record contributes: paired / proper pair / mate reverse / first / last /
				// QC fail / duplicate (mate fields stay "*" and 0, as aligners write them for unpaired input converted later)
				flag |= rapid.SampledFrom([]int{0x1, 0x1 | 0x40, 0x1 | 0x80, 0x1 | 0x2 | 0x40, 0x1 | 0x20 | 0x80, 0x200, 0x400, 0x1 | 0x40 | 0x400}).Draw(t, "otherFlags")
			}
			if o.allowNoise && rapid.IntRange(0, 5).Draw(t, "noiseBefore") == 0 {
				in.Recs = append(in.Recs, genNoiseRecord(t, names[rapid.IntRange(0, len(names)-1).Draw(t, "noiseName")], in.Ref))
			}
			in.Recs = append(in.Recs, genAlignedRecord(t, name, flag, in.Ref, truth, used, conflict && ri > 0))
		}
		if o.allowNoise && qi == nq-1 && rapid.IntRange(0, 5).Draw(t, "noiseLast") == 0 {
			in.Recs = append(in.Recs, genNoiseRecord(t, names[rapid.IntRange(0, len(names)-1).Draw(t, "noiseName")], in.Ref))
		}
	}
	if o.manyEvery > 0 && !huge && rapid.IntRange(0, o.manyEvery-1).Draw(t, "manyCase") == 0 {
		// thousands of records: more than any block / ring / channel size an implementation may use
		// (256, 4096, 8192); the generated queries are repeated under fresh names, multi-record ones included
		mt := o.manyTargets
		if len(mt) == 0 {
			mt = []int{300, 700, 4200, 4200, 8300}
		}
		target := rapid.SampledFrom(mt).Draw(t, "manyTarget")
		base, baseRecs := in.groups()
		for k := 0; len(in.Recs) < target; k++ {
			for _, r := range baseRecs[base[k%len(base)]] {
				r.Name = fmt.Sprintf("rep%d_%s", k, r.Name)
				in.Recs = append(in.Recs, r)
			}
		}
	}
	return in
}

// labelSam records the shape classes the suite never varies.
func labelSam(in SamInput, o *Obs) {
	L := len(in.Ref)
	for _, r := range in.Recs {
		if r.Kind != "aligned" {
			o.Label("noise:" + r.Kind)
			continue
		}
		var core []SamOp
		for _, op := range r.Ops {
			o.Label("op:" + op.Op)
			if op.Op != "S" && op.Op != "H" {
				core = append(core, op)
			}
		}
		if len(core) > 0 {
			o.LabelIf(core[0].Op == "D", "leading-D")
			o.LabelIf(core[len(core)-1].Op == "D", "trailing-D")
			o.LabelIf(core[0].Op == "N" || core[len(core)-1].Op == "N", "edge-N")
			o.LabelIf(core[0].Op == "I", "leading-I")
			o.LabelIf(core[len(core)-1].Op == "I", "trailing-I")
		}
		for i := 1; i < len(core); i++ {
			a, b := core[i-1].Op, core[i].Op
			o.LabelIf((a == "I" && b == "D") || (a == "D" && b == "I"), "adjacent-I/D")
		}
		for _, op := range r.Ops {
			o.LabelIf(op.Len > 4096, "operator-longer-than-4096")
			o.LabelIf(op.Len > 256, "operator-longer-than-256")
		}
		o.LabelIf(r.Flag&0x1 != 0, "flag:paired")
		o.LabelIf(r.Flag&0x600 != 0, "flag:qcfail-or-duplicate")
		o.LabelIf(r.Pos == 1, "pos=1")
		o.LabelIf(r.Pos-1+refSpan(r.Ops) == L, "ends-at-L")
	}
	gnames, gm := in.groups()
	o.LabelIf(len(gnames) >= 40, "queries>=40")
	o.LabelIf(len(in.Recs) > 4096, "records>4096")
	o.LabelIf(len(in.Recs) > 256, "records>256")
	for _, n := range gnames {
		rs := gm[n]
		o.LabelIf(len(rs) > 1, "multi-record-query")
		o.LabelIf(len(rs) > 8, "query-with-more-than-8-records")
		o.LabelIf(len(rs) > 64, "query-with-more-than-64-records")
		if len(rs) > 1 {
			// overlap?
			cover := make([]int, L)
			for _, r := range rs {
				p := projectRecord(r, L)
				for i, c := range p.row {
					if c != 0 {
						cover[i]++
					}
				}
			}
			ov := false
			for _, c := range cover {
				if c > 1 {
					ov = true
				}
			}
			o.LabelIf(ov, "overlapping-records")
			o.LabelIf(!ov, "disjoint-records")
		}
	}
}
