//go:build verif

package harness

// C12 — output is a deterministic function of the input, not of threads or scheduling.
// Metamorphic: bytes(any configuration) == bytes(baseline: threads 1, jitter off), for every command.
// Configurations: --threads, GOMAXPROCS, seeded scheduling jitter at the worker stage boundaries
// (pkg/vhook, build tag verif), repetitions (fresh map iteration orders). Under -race (thorough)
// the race detector halts the process and the driver attributes the death to the in-flight case.

import (
	"bytes"
	"fmt"
	"os"
	"path/filepath"
	"runtime"
	"sort"
	"strconv"
	"strings"
	"testing"
	"time"

	"github.com/virus-evolution/gofasta/pkg/closest"
	"github.com/virus-evolution/gofasta/pkg/sam"
	"github.com/virus-evolution/gofasta/pkg/snps"
	"github.com/virus-evolution/gofasta/pkg/updown"
	"github.com/virus-evolution/gofasta/pkg/vhook"
	"pgregory.net/rapid"
)

type c12Config struct {
	Threads int    `json:"threads"`
	Procs   int    `json:"gomaxprocs"`
	Jitter  uint64 `json:"jitter_seed"` // 0 = off
	SlowIdx int    `json:"slow_idx"`    // >= 0: the worker carrying this record index is held back SlowUS at every stage boundary
	SlowUS  uint64 `json:"slow_us"`
}

type c12Case struct {
	Cmd     string      `json:"cmd"`
	Sam     *SamInput   `json:"sam,omitempty"`
	Var     *varCase    `json:"var,omitempty"`
	Snps    *c03Case    `json:"snps,omitempty"`
	Clo     *c06Case    `json:"closest,omitempty"`
	UD      *c08Case    `json:"updown,omitempty"`
	Flag    bool        `json:"flag"` // aggregate / table / stdout, depending on the command
	Configs []c12Config `json:"configs"`
	Reps    int         `json:"reps"`
	Proc    bool        `json:"proc,omitempty"` // run the binary (a fresh process per run: no state carried over from earlier cases)
}

var c12Cmds = []string{"toMultiAlign", "toPairAlign", "toPairAlign-stdout", "sam-variants", "variants", "snps", "closest", "closestN", "updown-list", "topranking"}

// c12Args renders the case as a command line for the binary (files written into dir); ok=false if the
// command has no process-level form here.
func c12Args(c c12Case, dir string, threads int) ([]string, bool) {
	th := strconv.Itoa(threads)
	switch c.Cmd {
	case "toMultiAlign":
		a := []string{"sam", "toMultiAlign", "-s", writeFile(dir, "in.sam", c.Sam.render()), "-t", th}
		if c.Flag {
			a = append(a, "-w", "7")
		}
		return a, true
	case "toPairAlign-stdout":
		a := []string{"sam", "toPairAlign", "-s", writeFile(dir, "in.sam", c.Sam.render()), "-r", writeFile(dir, "ref.fa", c.Sam.refFasta()), "-o", "stdout", "-t", th}
		if c.Flag {
			a = append(a, "--omit-reference")
		}
		return a, true
	case "sam-variants", "variants":
		vc := *c.Var
		vc.Threads = threads
		return vc.cliArgs(dir, varRunOpts{Start: -1, End: -1, AppendSNP: true, Aggregate: c.Flag}), true
	case "snps":
		s := c.Snps
		a := []string{"snps", "-r", writeFile(dir, "ref.fa", renderFasta([]FaRec{s.Ref}, s.RefLay)), "-q", writeFile(dir, "aln.fa", renderFasta(s.Recs, s.AlnLay))}
		if s.HardGaps {
			a = append(a, "--hard-gaps")
		}
		if c.Flag {
			a = append(a, "--aggregate")
		}
		return a, true
	case "closest", "closestN":
		cl := c.Clo
		a := []string{"closest", "--query", writeFile(dir, "q.fa", fa(cl.Queries...)), "--target", writeFile(dir, "t.fa", fa(cl.Targets...)), "-m", cl.Measure, "-t", th}
		if c.Cmd == "closestN" {
			a = append(a, "-n", strconv.Itoa(cl.K))
			if c.Flag {
				a = append(a, "--table")
			}
		}
		return a, true
	case "updown-list":
		u := c.UD
		return []string{"updown", "list", "-r", writeFile(dir, "ref.fa", ">ref\n"+u.Ref+"\n"), "-q", writeFile(dir, "aln.fa", fa(u.Targets...))}, true
	case "topranking":
		u := *c.UD
		u.Opts.Table = c.Flag
		a := append([]string{"updown", "topranking", "-q", writeFile(dir, "q.fasta", fa(u.Queries...)), "-t", writeFile(dir, "t.fasta", fa(u.Targets...)), "-r", writeFile(dir, "ref.fasta", ">ref\n"+u.Ref+"\n")}, u.Opts.cliFlags(dir)...)
		return a, true
	}
	return nil, false
}

// checkC12Proc: the same metamorphic relation on fresh processes of the binary (race-instrumented in the race arm:
// the race detector then halts the process with exit 66).
func checkC12Proc(c c12Case, o *Obs) error {
	dir, cleanup := caseDir("c12proc")
	defer cleanup()
	args1, ok := c12Args(c, dir, 1)
	if !ok || gofastaBin() == "" {
		return nil
	}
	o.Label("proc:" + c.Cmd)
	base := runBinEnv(60*time.Second, "", nil, nil, args1...)
	if base.TimedOut || base.Exit != 0 {
		return fmt.Errorf("%s: baseline process run failed (exit %d, timeout %v): %s", c.Cmd, base.Exit, base.TimedOut, trunc(base.Stderr, 600))
	}
	for _, cfg := range c.Configs {
		args, _ := c12Args(c, dir, cfg.Threads)
		env := []string{"GOMAXPROCS=" + strconv.Itoa(cfg.Procs), "VERIF_JITTER=" + strconv.FormatUint(cfg.Jitter, 10)}
		if cfg.SlowUS > 0 {
			env = append(env, "VERIF_JITTER_SLOWIDX="+strconv.Itoa(cfg.SlowIdx), "VERIF_JITTER_SLOWUS="+strconv.FormatUint(cfg.SlowUS, 10))
		}
		for r := 0; r < c.Reps; r++ {
			got := runBinEnv(60*time.Second, "", nil, env, args...)
			stats.count("process_runs", 1)
			if got.TimedOut {
				return fmt.Errorf("%s: run with %+v did not terminate", c.Cmd, cfg)
			}
			if got.Exit != 0 {
				what := ""
				if strings.Contains(got.Stderr, "DATA RACE") {
					what = " — the race detector reported a data race"
				}
				return fmt.Errorf("%s: run with %+v exits %d%s\nstderr: %s", c.Cmd, cfg, got.Exit, what, trunc(got.Stderr, 1500))
			}
			if got.Stdout != base.Stdout {
				return fmt.Errorf("%s (process level): output under %+v differs from the -t 1 run\n%s\nbaseline:\n%s\nthis run:\n%s", c.Cmd, cfg, firstDiff(got.Stdout, base.Stdout), trunc(base.Stdout, 1000), trunc(got.Stdout, 1000))
			}
		}
	}
	if c.nRecords() >= 8 {
		o.NonTrivial()
	}
	return nil
}

// c12Run executes the command once under cfg and returns all bytes it produced.
func c12Run(c c12Case, cfg c12Config) (string, error) {
	runtime.GOMAXPROCS(cfg.Procs)
	vhook.Configure(cfg.Jitter, 300)
	if cfg.SlowUS > 0 {
		vhook.ConfigureSlow(cfg.SlowIdx, cfg.SlowUS)
	} else {
		vhook.ConfigureSlow(-1, 0)
	}
	defer vhook.ConfigureSlow(-1, 0)
	defer runtime.GOMAXPROCS(runtime.NumCPU())
	var out bytes.Buffer
	switch c.Cmd {
	case "toMultiAlign":
		st := c.Sam.render()
		wrap := -1
		if c.Flag {
			wrap = 7
		}
		err := mustRun("sam.ToMultiAlign", func() error { return sam.ToMultiAlign(strings.NewReader(st), &out, wrap, -1, -1, false, cfg.Threads) })
		return out.String(), err
	case "toPairAlign":
		dir, cleanup := caseDir("c12topa")
		defer cleanup()
		st, rt := c.Sam.render(), c.Sam.refFasta()
		start, end := -1, -1
		if c.Flag {
			start, end = 2, len(c.Sam.Ref)-1
		}
		if err := mustRun("sam.ToPairAlign", func() error {
			return sam.ToPairAlign(strings.NewReader(st), strings.NewReader(rt), filepath.Join(dir, "o"), -1, start, end, false, false, cfg.Threads)
		}); err != nil {
			return "", err
		}
		ents, _ := os.ReadDir(filepath.Join(dir, "o"))
		var names []string
		for _, e := range ents {
			names = append(names, e.Name())
		}
		sort.Strings(names)
		for _, n := range names {
			b, _ := os.ReadFile(filepath.Join(dir, "o", n))
			out.WriteString("== " + n + "\n" + string(b))
		}
		return out.String(), nil
	case "toPairAlign-stdout":
		st, rt := c.Sam.render(), c.Sam.refFasta()
		s, err := captureStdout(func() error {
			return mustRun("sam.ToPairAlign(stdout)", func() error {
				return sam.ToPairAlign(strings.NewReader(st), strings.NewReader(rt), "stdout", -1, -1, -1, c.Flag, false, cfg.Threads)
			})
		})
		return s, err
	case "sam-variants", "variants":
		vc := *c.Var
		vc.Threads = cfg.Threads
		return runVariants(vc, varRunOpts{Start: -1, End: -1, AppendSNP: true, Aggregate: c.Flag, Threshold: 0})
	case "snps":
		s := c.Snps
		refTxt, aln := renderFasta([]FaRec{s.Ref}, s.RefLay), renderFasta(s.Recs, s.AlnLay)
		err := mustRun("snps.SNPs", func() error {
			return snps.SNPs(strings.NewReader(refTxt), strings.NewReader(aln), s.HardGaps, c.Flag, 0, &out)
		})
		return out.String(), err
	case "closest":
		cl := c.Clo
		qt, tt := fa(cl.Queries...), fa(cl.Targets...)
		err := mustRun("closest.Closest", func() error {
			return closest.Closest(strings.NewReader(qt), strings.NewReader(tt), cl.Measure, &out, cfg.Threads)
		})
		return out.String(), err
	case "closestN":
		cl := c.Clo
		qt, tt := fa(cl.Queries...), fa(cl.Targets...)
		err := mustRun("closest.ClosestN", func() error {
			return closest.ClosestN(cl.K, -1, strings.NewReader(qt), strings.NewReader(tt), cl.Measure, &out, c.Flag, cfg.Threads)
		})
		return out.String(), err
	case "updown-list":
		u := c.UD
		rt, aln := ">ref\n"+u.Ref+"\n", fa(u.Targets...)
		err := mustRun("updown.List", func() error { return updown.List(strings.NewReader(rt), strings.NewReader(aln), &out) })
		return out.String(), err
	case "topranking":
		u := *c.UD
		u.Opts.Table = c.Flag
		return runTopRanking(u, "fasta", "fasta", fa(u.Queries...), fa(u.Targets...))
	}
	return "", fmt.Errorf("unknown command %q", c.Cmd)
}

func (c c12Case) nRecords() int {
	switch {
	case c.Sam != nil:
		return len(c.Sam.queryNames())
	case c.Var != nil && c.Var.Form == "msa":
		return len(c.Var.Msa.Rows)
	case c.Var != nil:
		return len(c.Var.Sam.queryNames())
	case c.Snps != nil:
		return len(c.Snps.Recs)
	case c.Clo != nil:
		return len(c.Clo.Targets)
	case c.UD != nil:
		return len(c.UD.Targets)
	}
	return 0
}

func checkC12(c c12Case, o *Obs) error {
	if c.Proc && gofastaBin() != "" {
		if c.Cmd != "toPairAlign" { // directory output has no single stdout to compare
			return checkC12Proc(c, o)
		}
	}
	o.Label("cmd:" + c.Cmd)
	o.LabelIf(c.Flag, "flag(aggregate/table/wrap/omit-ref)")
	base, err := c12Run(c, c12Config{Threads: 1, Procs: runtime.NumCPU(), Jitter: 0, SlowIdx: -1})
	if err != nil {
		return fmt.Errorf("baseline run: %v", err)
	}
	o.LabelIf(c.nRecords() > 256, "records>256")
	reps := c.Reps
	if os.Getenv("VERIF_REPLAY") != "" {
		reps *= 10 // a schedule-dependent failure cannot be shrunk: the replay re-runs the configuration many times
	}
	nt := false
	for _, cfg := range c.Configs {
		for r := 0; r < reps; r++ {
			got, err := c12Run(c, cfg)
			stats.count("runs", 1)
			if err != nil {
				return fmt.Errorf("run with %+v: %v", cfg, err)
			}
			inv := vhook.Inversions()
			if inv > 0 {
				stats.count("runs_with_completion_order_inversion", 1)
				o.Label("inversion-observed")
				nt = true
			}
			if cfg.Threads > 1 && c.nRecords() >= 8 {
				nt = true
			}
			if got != base {
				return fmt.Errorf("%s: output differs from the baseline (threads 1, no jitter) under %+v (repetition %d, %d completion-order inversions observed)\n%s\nbaseline:\n%s\nthis run:\n%s",
					c.Cmd, cfg, r, inv, firstDiff(got, base), trunc(base, 1200), trunc(got, 1200))
			}
		}
	}
	// repeated baseline runs: map iteration order must not matter either
	for r := 0; r < 3; r++ {
		got, err := c12Run(c, c12Config{Threads: 1, Procs: runtime.NumCPU(), Jitter: 0, SlowIdx: -1})
		stats.count("runs", 1)
		if err != nil {
			return err
		}
		if got != base {
			return fmt.Errorf("%s: two runs with identical settings (threads 1, no jitter) give different bytes\n%s\nfirst:\n%s\nsecond:\n%s", c.Cmd, firstDiff(got, base), trunc(base, 1200), trunc(got, 1200))
		}
	}
	if nt {
		o.NonTrivial()
	}
	return nil
}

func genC12(t *rapid.T) c12Case {
	c := c12Case{Cmd: rapid.SampledFrom(c12Cmds).Draw(t, "cmd"), Flag: rapid.Bool().Draw(t, "flag")}
	switch c.Cmd {
	case "toMultiAlign", "toPairAlign", "toPairAlign-stdout":
		in := genSamInput(t, samGenOpts{maxRef: 40, maxQueries: 12, maxRecs: 2, allowNoise: true, hugeEvery: 5, manyEvery: 5, manyTargets: []int{300, 420, 700}})
		// at least 8 queries: pad with copies under new names
		names := in.queryNames()
		for k := 0; len(in.queryNames()) < 8; k++ {
			for _, r := range in.recordsOf(names[k%len(names)]) {
				r.Name = fmt.Sprintf("pad%d", k)
				in.Recs = append(in.Recs, r)
			}
		}
		c.Sam = &in
	case "sam-variants", "variants":
		vc := genVarCase(t, "aa")
		if c.Cmd == "variants" {
			for vc.Form != "msa" {
				vc.Form = "msa"
				m := genMSA(t, vc.Anno, 4, false)
				vc.Msa, vc.Sam = &m, nil
			}
			// >= 8 rows, with recurrences and same-position ties for --aggregate
			qs := vc.Msa.queries()
			for k := 0; len(vc.Msa.Rows) < 9; k++ {
				src := qs[k%len(qs)]
				vc.Msa.Rows = append(vc.Msa.Rows, FaRec{ID: fmt.Sprintf("pad%d", k), Seq: src.Seq})
			}
			addRecurrentAAChange(t, vc.Anno, vc.Msa)
		} else {
			for vc.Form != "sam" {
				vc.Form = "sam"
				in := genSamInput(t, samGenOpts{maxQueries: 6, maxRecs: 2, fixedRef: vc.Anno.Ref, fixedRefName: vc.Anno.RefName})
				vc.Sam, vc.Msa = &in, nil
				vc.RefFromFile = true
			}
			names := vc.Sam.queryNames()
			for k := 0; len(vc.Sam.queryNames()) < 8; k++ {
				for _, r := range vc.Sam.recordsOf(names[k%len(names)]) {
					r.Name = fmt.Sprintf("pad%d", k)
					vc.Sam.Recs = append(vc.Sam.Recs, r)
				}
			}
		}
		c.Var = &vc
	case "snps":
		s := genC03(t)
		for len(s.Recs) > 20 {
			s.Recs = s.Recs[:20] // the many-records class is handled here, with copies
		}
		minRecs := 10
		if rapid.IntRange(0, 3).Draw(t, "manyRecords") == 0 {
			minRecs = rapid.SampledFrom([]int{150, 300, 520}).Draw(t, "manyRecordsN")
		}
		for k := 0; len(s.Recs) < minRecs; k++ {
			s.Recs = append(s.Recs, FaRec{ID: fmt.Sprintf("pad%d", k), Seq: s.Recs[k%len(s.Recs)].Seq})
		}
		c.Snps = &s
	case "closest", "closestN":
		cl := genC06(t)
		minRecs := 10
		if rapid.IntRange(0, 3).Draw(t, "manyRecords") == 0 {
			minRecs = rapid.SampledFrom([]int{150, 300, 520}).Draw(t, "manyRecordsN")
		}
		for k := 0; len(cl.Targets) < minRecs; k++ {
			cl.Targets = append(cl.Targets, FaRec{ID: fmt.Sprintf("pad%d", k), Seq: cl.Targets[k%len(cl.Targets)].Seq}) // equal-distance targets
		}
		if cl.K < 1 {
			cl.K = 3
		}
		c.Clo = &cl
	default:
		u := genC08(t)
		minRecs := 10
		if rapid.IntRange(0, 3).Draw(t, "manyRecords") == 0 {
			minRecs = rapid.SampledFrom([]int{150, 300, 520}).Draw(t, "manyRecordsN") // copies: ties on distance and ambiguity count
		}
		for k := 0; len(u.Targets) < minRecs; k++ {
			u.Targets = append(u.Targets, FaRec{ID: fmt.Sprintf("pad%d", k), Seq: u.Targets[k%len(u.Targets)].Seq})
		}
		u.Opts.Ignore = nil
		c.UD = &u
	}
	ncfg := rapid.IntRange(2, 4).Draw(t, "nConfigs")
	for i := 0; i < ncfg; i++ {
		cfg := c12Config{
			Threads: rapid.SampledFrom([]int{1, 2, 3, 4, 8, 16}).Draw(t, "threads"),
			Procs:   rapid.SampledFrom([]int{1, 2, 4, 16}).Draw(t, "procs"),
			Jitter:  uint64(rapid.IntRange(0, 1<<30).Draw(t, "jitterSeed")),
			SlowIdx: -1,
		}
		if rapid.IntRange(0, 2).Draw(t, "slowRecord") == 0 {
			// one record's worker is held back long enough for hundreds of later records to overtake it
			cfg.SlowIdx = rapid.IntRange(0, maxInt(0, c.nRecords()-1)).Draw(t, "slowIdx")
			if rapid.Bool().Draw(t, "slowEarly") {
				cfg.SlowIdx = rapid.IntRange(0, minInt(3, maxInt(0, c.nRecords()-1))).Draw(t, "slowIdxEarly")
			}
			cfg.SlowUS = uint64(rapid.SampledFrom([]int{1000, 3000, 8000}).Draw(t, "slowUS"))
		}
		c.Configs = append(c.Configs, cfg)
	}
	if c.nRecords() > 256 {
		// an early record held back while hundreds of later ones complete: the classic stress for a re-ordering writer
		c.Configs = append(c.Configs, c12Config{Threads: rapid.SampledFrom([]int{4, 8, 16}).Draw(t, "manyThreads"), Procs: 16,
			Jitter: uint64(rapid.IntRange(0, 1<<30).Draw(t, "manyJitter")), SlowIdx: rapid.IntRange(0, 20).Draw(t, "manySlowIdx"), SlowUS: 8000})
	}
	c.Reps = rapid.IntRange(1, 3).Draw(t, "reps")
	c.Proc = rapid.IntRange(0, 3).Draw(t, "proc") == 0
	return c
}

func TestC12(t *testing.T) { runProp(t, "C12", genC12, checkC12) }

func maxInt(a, b int) int {
	if a > b {
		return a
	}
	return b
}

func minInt(a, b int) int {
	if a < b {
		return a
	}
	return b
}

// addRecurrentAAChange appends queries that carry one and the same amino-acid change through different nucleotide changes
// (codon XY? of a four-fold degenerate family, third base free): the same record text up to its (nuc:...) list, which is what
// --aggregate has to keep apart or merge the same way on every run.
func addRecurrentAAChange(t *rapid.T, a Anno, m *MsaCase) {
	var named []Feat
	for _, f := range a.Feats {
		if f.Name != "" && f.nCodons() >= 2 {
			named = append(named, f)
		}
	}
	if len(named) == 0 {
		return
	}
	refRow := strings.ToUpper(m.refRow(a))
	col := map[int]int{} // reference position (1-based) -> alignment column
	p := 0
	for i := 0; i < len(refRow); i++ {
		if refRow[i] != '-' {
			p++
			col[p] = i
		}
	}
	if p != len(a.Ref) {
		return
	}
	f := named[rapid.IntRange(0, len(named)-1).Draw(t, "recurFeat")]
	k := rapid.IntRange(0, f.nCodons()-2).Draw(t, "recurCodon")
	cp := f.codingPositions()[3*k : 3*k+3]
	onStrand := func(b byte) byte {
		if f.Strand < 0 {
			return complementBase(b)
		}
		return b
	}
	rc := string([]byte{onStrand(a.Ref[cp[0]-1]), onStrand(a.Ref[cp[1]-1]), onStrand(a.Ref[cp[2]-1])})
	if !isACGT(rc[0]) || !isACGT(rc[1]) || !isACGT(rc[2]) {
		return
	}
	prefix := rapid.SampledFrom([]string{"CT", "GT", "TC", "CC", "AC", "GC", "CG", "GG"}).Draw(t, "recurPrefix")
	if prefix == rc[:2] || translateCodonModel(prefix+"A") == translateCodonModel(rc) {
		return
	}
	mk := func(third byte) string {
		b := []byte(refRow)
		b[col[cp[0]]], b[col[cp[1]]], b[col[cp[2]]] = onStrand(prefix[0]), onStrand(prefix[1]), onStrand(third)
		return string(b)
	}
	other := "ACGT"[(strings.IndexByte("ACGT", rc[2])+1+rapid.IntRange(0, 2).Draw(t, "recurThird"))%4]
	for i := 0; i < 3; i++ {
		m.Rows = append(m.Rows, FaRec{ID: fmt.Sprintf("recurA%d", i), Seq: mk(rc[2])}, FaRec{ID: fmt.Sprintf("recurB%d", i), Seq: mk(other)})
	}
}
