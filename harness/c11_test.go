package harness

// C11 — sam variants and variants agree on the same alignment.

import (
	"bytes"
	"fmt"
	"os"
	"path/filepath"
	"strings"
	"testing"

	"github.com/virus-evolution/gofasta/pkg/sam"
	"github.com/virus-evolution/gofasta/pkg/variants"
	"pgregory.net/rapid"
)

type c11Case struct {
	Var       varCase `json:"var"` // Form is always "sam"
	AppendSNP bool    `json:"append_snps"`
	Start     int     `json:"start"`
	End       int     `json:"end"`
	PairWrap  int     `json:"pair_wrap"` // --wrap given to sam toPairAlign when writing the intermediate files (<=0: off)
}

func checkC11(c c11Case, o *Obs) error {
	vc := c.Var
	labelVarCase(vc, o)
	o.LabelIf(c.AppendSNP, "append-snps")
	o.LabelIf(c.Start > 0 || c.End > 0, "window")
	o.LabelIf(!vc.RefFromFile, "reference-from-annotation")
	o.LabelIf(c.PairWrap > 0, "pair-files-wrapped")
	run := varRunOpts{Start: c.Start, End: c.End, AppendSNP: c.AppendSNP}
	samOut, err := runVariants(vc, run)
	if err != nil {
		return fmt.Errorf("%v\n%s", err, vc.describe())
	}
	order, samRows, err := parseVariantsOutput(samOut)
	if err != nil {
		return err
	}
	names := vc.Sam.queryNames()
	if strings.Join(order, ",") != strings.Join(names, ",") {
		return fmt.Errorf("sam variants rows %v, queries %v", order, names)
	}
	// the pairwise alignments written by sam toPairAlign
	dir, err := os.MkdirTemp(scratchDir(), "c11-*")
	if err != nil {
		return err
	}
	defer os.RemoveAll(dir)
	samTxt, refTxt := vc.Sam.render(), vc.Sam.refFasta()
	if err := mustRun("sam.ToPairAlign", func() error {
		return sam.ToPairAlign(strings.NewReader(samTxt), strings.NewReader(refTxt), filepath.Join(dir, "pairs"), c.PairWrap, -1, -1, false, false, 1)
	}); err != nil {
		return err
	}
	var ma bytes.Buffer
	if err := mustRun("sam.ToMultiAlign", func() error {
		return sam.ToMultiAlign(strings.NewReader(samTxt), &ma, -1, -1, -1, true, 1)
	}); err != nil {
		return err
	}
	maRows := map[string]string{}
	ls := splitLines(ma.String())
	for i := 0; i+1 < len(ls); i += 2 {
		maRows[strings.TrimPrefix(ls[i], ">")] = ls[i+1]
	}
	anno := vc.annoText()
	L := len(vc.Sam.Ref)
	nt := false
	for _, n := range names {
		pairTxt, err := os.ReadFile(filepath.Join(dir, "pairs", pairFileName(n)))
		if err != nil {
			return fmt.Errorf("toPairAlign wrote no file for %s: %v", n, err)
		}
		runMSA := func(msa []byte, what string) error {
			var out bytes.Buffer
			if err := mustRun("variants.Variants("+what+")", func() error {
				return variants.Variants(bytes.NewReader(msa), false, vc.Sam.RefName, strings.NewReader(anno), vc.Format, &out, c.Start, c.End, false, 0, c.AppendSNP, vc.Threads)
			}); err != nil {
				return fmt.Errorf("%v\n%s\nmsa:\n%s", err, vc.describe(), trunc(string(msa), 600))
			}
			_, rows, err := parseVariantsOutput(out.String())
			if err != nil {
				return err
			}
			got, ok := rows[n]
			if !ok {
				return fmt.Errorf("variants on the %s of %s has no row for it: %q", what, n, out.String())
			}
			if strings.Join(got, "|") != strings.Join(samRows[n], "|") {
				return fmt.Errorf("query %s: sam variants reports %v\n but variants on the %s reports %v\n(append-snps=%v start=%d end=%d)\n%s\n%s:\n%s",
					n, samRows[n], what, got, c.AppendSNP, c.Start, c.End, vc.describe(), what, trunc(string(msa), 600))
			}
			return nil
		}
		if err := runMSA(pairTxt, "toPairAlign pair"); err != nil {
			return err
		}
		q := projectQuery(vc.Sam.recordsOf(n), L)
		if len(q.ins) == 0 {
			o.Label("leg:toMultiAlign")
			row, ok := maRows[n]
			if !ok {
				return fmt.Errorf("toMultiAlign wrote no row for %s", n)
			}
			msa := ">" + vc.Sam.RefName + "\n" + vc.Sam.Ref + "\n>" + n + "\n" + row + "\n"
			if err := runMSA([]byte(msa), "toMultiAlign --pad row"); err != nil {
				return err
			}
		}
		rr, qr := q.fullPairRows(vc.Sam.Ref, false)
		if v, e := viewFromRows(rr, qr); e == nil {
			if len(v.expectedIndels()) > 0 && (len(v.expectedSNPs()) > 0) {
				nt = true
			}
		}
	}
	if nt {
		o.NonTrivial()
	}
	return nil
}

func genC11(t *rapid.T) c11Case {
	c := c11Case{}
	vc := varCase{Format: rapid.SampledFrom([]string{"gb", "gff"}).Draw(t, "format"), Form: "sam"}
	ao := annoGenOpts{minRef: 20, maxRef: ifThorough(300, 90), maxFeats: ifThorough(6, 4), allowUnnamed: vc.Format == "gff", iupacOutside: true}
	vc.GFF = gffOpts{SequenceRegion: rapid.Bool().Draw(t, "seqRegion"), WithFasta: true, SpecPhases: rapid.Bool().Draw(t, "specPhases"), SortRows: rapid.Bool().Draw(t, "sortRows"), ParentAttr: rapid.IntRange(0, 2).Draw(t, "parentAttr") == 0}
	vc.Anno = genAnno(t, ao)
	vc.Threads = rapid.SampledFrom([]int{1, 1, 2, 4}).Draw(t, "threads")
	in := genSamInput(t, samGenOpts{maxQueries: 3, maxRecs: 3, allowNoise: true, fixedRef: vc.Anno.Ref, fixedRefName: vc.Anno.RefName})
	vc.Sam = &in
	vc.RefFromFile = rapid.IntRange(0, 3).Draw(t, "refFromFile") != 0
	c.Var = vc
	c.AppendSNP = rapid.Bool().Draw(t, "appendSNP")
	c.Start, c.End = genWindow(t, len(vc.Anno.Ref))
	c.PairWrap = -1
	if rapid.IntRange(0, 2).Draw(t, "pairWrapOn") == 0 {
		c.PairWrap = rapid.IntRange(1, len(vc.Anno.Ref)+5).Draw(t, "pairWrap")
	}
	return c
}

func TestC11(t *testing.T) { runProp(t, "C11", genC11, checkC11) }
