#!/usr/bin/env python3
# validates MANIFEST.json and every evidence file against the given schemas (uses the tooling venv's jsonschema)
import json, glob, sys
import jsonschema
m = json.load(open('/verif/MANIFEST.json'))
jsonschema.validate(m, json.load(open('/root/.vp/MANIFEST.schema.json')))
es = json.load(open('/root/.vp/EVIDENCE.schema.json'))
bad = 0
for c in m['checks']:
    p = c['evidence_file']
    try:
        jsonschema.validate(json.load(open(p)), es)
    except Exception as e:
        bad += 1
        print('BAD', p, str(e)[:300])
print('manifest ok;', len(m['checks']), 'checks;', bad, 'bad evidence files')
sys.exit(1 if bad else 0)
